#!/bin/sh
# Builds every flavour of /repo's working tree + drivers (offline), then plumbing self-tests.
set -e
cd "$(dirname "$0")"
python3 vlib/build.py san plain tsan hdr fuzz
if [ -x ./selfcheck.sh ]; then ./selfcheck.sh; fi
echo "setup ok"
