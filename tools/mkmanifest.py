#!/usr/bin/env python3
"""Regenerates MANIFEST.json from the table below (single source, so the file stays valid)."""
import json
import os
import subprocess

HERE = os.path.dirname(os.path.dirname(os.path.abspath(__file__)))

# id -> (level, technique, text, note, engine, design_ref)
P = {
    "C01": ("exploration", "differential run of the real pipeline tree against a reference evaluator + ASan/UBSan",
            "Random pipeline trees / fluent programs x message streams are executed by the real Pipeline/SimplePipeline "
            "code (ASan+UBSan+libstdc++ debug build); every sink delivery and the final message state are compared with "
            "an independent Python evaluator of in-order semantics.",
            "Trusts the Python reference evaluator and the atom tables shared by generator and driver; handlers returning "
            "a null QString from a formatter are not generated.", "drv_fmt", "5.1"),
    "C02": ("exploration", "stress schedules with hook-injected noise; in-flight probe + history checker; ThreadSanitizer",
            "N producer threads log through the installed synchronous Logger (and a bare OwnThreadHandler<Pipeline>) under "
            "injected schedule noise; an in-flight counter decides mutual exclusion, an offline checker decides exactly-once, "
            "per-producer order, consecutive sequence numbers and stateful-handler conformance to the observed serial order; "
            "TSan (with a QMutex shim) and ASan builds run a share of the histories.",
            "Schedules are those the OS plus injected noise produce; Qt internals are uninstrumented and trusted.",
            "drv_conc", "5.2"),
    "C03": ("exploration", "ticketed producer/consumer history checker (content twin, FIFO, real-time order, thread identity); TSan/ASan",
            "Producers log with heap buffers freed right after the call while the logger runs on its own thread; a recording sink "
            "snapshots every accessor; the checker compares each delivery with the message as it was at hand-off, checks FIFO per "
            "producer and real-time order from call/return tickets, thread identity of all handler work and that a log call never "
            "waits for a gated sink.",
            "Hook oth.post.msg supplies the synchronous twin; Qt's posted-event queue is trusted to be what Qt documents.",
            "drv_conc", "5.3"),
    "C04": ("exploration", "child process per shutdown path with ticketed accept/deliver/stop events (append-only file, one write(2) each); history checker; progress-based hang detector; TSan/ASan cycles",
            "Each enumerated shutdown path (aboutToQuit, explicit reset, return without exec, exit(), leaked application, non-singleton "
            "destruction, move/reset cycles, two concurrent stops) x backlog x sink delay x racing producers x configuration front-end runs "
            "in a child process that records ticketed events; the parent checks drained-before-the-stop-returns, exactly-once, per-producer "
            "order, synchronous delivery after the stop and termination with a progress-based (not wall-clock) hang detector; in-process "
            "paths also run under TSan and ASan. Three open findings are listed in known_findings.json.",
            "Termination is decided as 'exits while watched or stops making progress'; an unbounded liveness claim is out of reach.",
            "drv_app", "5.4"),
    "C05": ("exploration", "offline log-conservation checker over recorded rotation histories (virtual clock, independent gzip reader)",
            "Random operation histories (writes of hostile sizes, day changes, restarts, all option subsets) run against the real "
            "RotatingFileSink under a virtual wall clock; after every operation the directory is snapshotted and an offline checker "
            "verifies immutability, framing, conservation and order of every record using its own gzip reader.",
            "mtime stamping is emulated by the driver from the virtual clock; LC_ALL=C.UTF-8.", "drv_rot", "5.5"),
    "C06": ("exploration", "retention monitor over rotation histories incl. timestamp-granularity emulation and foreign files",
            "Same engine; after every write the file-count bound, contiguous-suffix survival of record ids, never-delete for N<=0, "
            "never-rotate for N=1 and byte/mtime identity of foreign look-alike files are checked, under 1 ns / 1 ms / 1 s / 2 s "
            "timestamp granularity and bursts crossing index 9->10 and 99->100.",
            "Granularity is emulated by re-stamping between operations; a 'real clock' mode covers natural ties.", "drv_rot", "5.6"),
    "C07": ("exploration", "per-file size / whole-record monitor over rotation histories",
            "Same engine with record sizes drawn around the limit (L-2..L+2, 0, multi-byte); after every write each file is either "
            "<= L bytes or a single record, and every record lies in one file.",
            "Same as C05.", "drv_rot", "5.7"),
    "C08": ("exploration", "RFC 1952 structural parser + independent inflate + CRC/ISIZE check; unlink-time snapshot monitor",
            "Every .gz produced in the histories is parsed by an independent RFC 1952 reader (header fields, single member, raw deflate "
            "via Python zlib, CRC-32 and ISIZE) and compared with the content it replaces; a syscall monitor snapshots the .gz at the "
            "moment the original is unlinked to check it was already complete.",
            "Python zlib is the reference inflater.", "drv_rot", "5.8"),
    "C09": ("exploration", "(name date, index, record day) monitor over histories with day jumps, restarts, delivery lag",
            "Histories mixing day jumps, size rotations, restarts, retention removals, delivery lag and midnight between clock reads; "
            "the checker verifies one day per file, name date = record day, no rotated name reused, indices increasing per date.",
            "Virtual clock via libc interposition; timestamps re-stamped by the driver.", "drv_rot", "5.9"),
    "C10": ("fault_enumeration", "process kill / errno injection (single and persisting) at every intercepted syscall boundary of a rotating operation, then restart; strace cross-check",
            "For each scenario (size/daily/start-up trigger x options x limits x earlier rotations x stray leftovers x real rename "
            "obstacles) the rotating operation is repeated with the process killed before every intercepted file syscall, with a half "
            "write + kill at every write, with single errno failures of rename/link/unlink/create and with the same failure persisting; "
            "a checker that reads the directory itself verifies that all records on disk before are still recoverable from intact files "
            "(retention may only remove whole oldest files down to its limit) and that a restarted sink continues logging.",
            "Process death, not power loss; syscall interposition completeness is cross-checked against strace.", "drv_rot", "5.10"),
    "C11": ("fault_enumeration", "child process logs then qFatal; parent inspects files after SIGABRT",
            "Child processes configure a synchronous logger in several ways, log n messages of several sizes and raise qFatal from "
            "the main or a worker thread; after death by SIGABRT the parent requires the fatal line and all predecessors in every file.",
            "The abort is Qt's own (SIGABRT after the handler returns).", "drv_app", "5.11"),
    "C12": ("exploration", "differential run against an independent reference of the documented pattern mini-language",
            "Generated patterns over the documented grammar x hostile values are formatted by the real PatternFormatter (ASan/UBSan "
            "build) and compared with an independent UTF-16 reference implementing the documented rules; accept-sets only where the "
            "documentation is silent.",
            "Reference written from docs/api/formatters.md; corner inputs outside the documented core give sanitizer verdicts only.",
            "drv_fmt", "5.12"),
    "C13": ("exploration", "independent JSON parse + field-by-field recovery + line-break scan",
            "Generated messages/attributes are formatted by the real JsonFormatter; Python's json parser must consume exactly one object, "
            "all built-in fields and custom attributes must be recovered exactly, compact output must contain no line break.",
            "Python json is the reference parser.", "drv_fmt", "5.13"),
    "C14": ("exploration", "libFuzzer + ASan/UBSan targets (byte-level and grammar-directed) for every formatter/filter; hang confirmation by re-run; valgrind memcheck replay of the kept corpus; deterministic many-threads and many-wildcards workloads; ASan poisoning of reused caller buffers",
            "Coverage-guided fuzzing (clang libFuzzer, ASan+UBSan) of pattern/patgram/func/pretty/json/sentry/catfilter/regexp/filters targets "
            "from a committed seed corpus; time-outs are re-run alone with a large budget to separate slow from hung.",
            "Field widths above 99999 are out of scope (resource exhaustion as requested).", "fuzz", "5.14"),
    "C15": ("exploration", "differential run against an independent glob reference (+ QLoggingCategory on Qt's subset)",
            "Generated rule lists x categories x types evaluated by the real CategoryFilter and compared with a regex-free reference "
            "of ordered last-match-wins glob rules; on the subset Qt supports QLoggingCategory is a third opinion.",
            "Reference follows the property statement (glob), not the sentence in filters.md.", "drv_fmt", "5.15"),
    "C16": ("exploration", "reference automata over generated message sequences, shared handler instances",
            "Sequences (runs, alternations, null/empty, case/whitespace/normalisation variants) are fed to the real filters and "
            "sequence counter, also shared between pipelines, and compared with reference automata.",
            "Regular expressions restricted to a menu on which PCRE and Python re agree.", "drv_fmt", "5.16"),
    "C17": ("exploration", "rank-ordered list model checked after every call; ASan/UBSan + libstdc++ debug mode",
            "All call sequences up to a bound are enumerated and long random ones sampled against the real SortedPipeline; after "
            "every call the arrangement and the execution order are compared with a rank-ordered list model; libstdc++ debug mode "
            "turns invalid iterator ranges into aborts.",
            "Handlers are recording stubs.", "drv_fmt", "5.17"),
    "C18": ("exploration", "independent JSON parse + per-field obligations + id uniqueness set",
            "Generated messages/attribute sets are formatted by the real SentryFormatter; every obligation of the statement is checked "
            "on the parsed event and event ids are accumulated in a set over the whole run.",
            "Python json is the reference parser.", "drv_fmt", "5.18"),
    "C19": ("exploration", "child process per configuration with captured stdout/stderr/files vs composed references; handler-identity automaton; shape and thread-column monitor for the pretty formatter",
            "INI key subsets / configure() argument tuples are applied in child processes that emit a stream through Qt's macros; "
            "captured outputs are compared with the composition of the C12/C15/C05 references; install/restore/foreign histories are "
            "enumerated against a reference automaton.",
            "Pretty layout is not modelled, only containment and multiplicity.", "drv_app", "5.19"),
    "C20": ("other", "re-run of the project's generator on a scratch copy + per-file marker probes + header-only twin run",
            "The project's generator is executed on a scratch copy of the current tree and its output compared byte-for-byte with "
            "qtlogger.h; per-source-file marker probes check that every file's edits reach the header; a header-only build of the "
            "driver must produce byte-identical results to the library build on a shared case file.",
            "Trusts the generator script as the definition of 'amalgamation'.", "gen", "5.20"),
}


def claimed():
    out = []
    for pid in sorted(P):
        if os.path.exists(os.path.join(HERE, "vlib", "props", pid.lower() + ".py")):
            out.append(pid)
    return out


def main():
    hooks_commits = subprocess.run(["git", "-C", "/repo", "log", "--format=%H", "--grep=^verif hooks"],
                                   stdout=subprocess.PIPE, text=True).stdout.split()
    cl = claimed()
    checks = []
    for pid in cl:
        level, tech, text, note, engine, ref = P[pid]
        checks.append({
            "property_id": pid,
            "quick_cmd": "./check %s --tier quick" % pid,
            "thorough_cmd": "./check %s --tier thorough" % pid,
            "evidence_file": "evidence/%s.json" % pid,
            "replay_cmd_template": "./check %s --replay {path}" % pid,
            "engine": engine,
            "level_claimed": {"category": level, "text": text, "design_ref": "DESIGN.md §" + ref},
            "level_note": note,
            "technique": tech,
        })
    na = [{"property_id": pid, "reason": "check not built yet (runtime-monitoring design in DESIGN.md §%s); not claimed until its "
                                          "monitor has been validated on the unchanged tree" % P[pid][5]}
          for pid in sorted(P) if pid not in cl]
    man = {
        "version": 1,
        "setup_cmd": "./setup.sh",
        "hooks": {
            "guard": "QTLOGGER_VERIF",
            "enable": "-DQTLOGGER_VERIF appended to CMAKE_CXX_FLAGS by vlib/build.py for the san/tsan/plain flavours "
                      "(drivers/CMakeLists.txt add_subdirectory()s /repo/src/qtlogger)",
            "baseline_off_cmd": "./baseline_off.sh",
            "source_commits": hooks_commits,
            "add_only": True,
        },
        "engines": [
            {"name": "drv_fmt", "path": "drivers/drv_fmt.cpp", "serves_properties": ["C01", "C12", "C13", "C15", "C16", "C17", "C18", "C19", "C20"],
             "kind_free_text": "differential executor: decodes case lines, calls the public API, records results; oracles in Python"},
            {"name": "drv_conc", "path": "drivers/drv_conc.cpp", "serves_properties": ["C02", "C03", "C04"],
             "kind_free_text": "threaded history recorder with hook-injected schedule noise (plain/tsan/san flavours)"},
            {"name": "drv_rot", "path": "drivers/drv_rot.cpp", "serves_properties": ["C05", "C06", "C07", "C08", "C09", "C10"],
             "kind_free_text": "rotation history executor with virtual clock and syscall monitor/fault injection"},
            {"name": "drv_app", "path": "drivers/drv_app.cpp", "serves_properties": ["C04", "C11", "C19"],
             "kind_free_text": "child application for shutdown paths, fatal messages and end-to-end configuration"},
            {"name": "fuzz", "path": "drivers/fuzz_targets.cpp", "serves_properties": ["C14"],
             "kind_free_text": "libFuzzer targets (clang ASan+UBSan)"},
            {"name": "gen", "path": "vlib/props/c20.py", "serves_properties": ["C20"],
             "kind_free_text": "the repository's own tools/gen_qtlogger.h.py on a scratch copy"},
        ],
        "checks": checks,
        "not_applicable": na,
        "notes": "Technique family: runtime monitoring and sanitizers. See DESIGN.md. known_findings.json lists fixed/open findings.",
    }
    with open(os.path.join(HERE, "MANIFEST.json"), "w") as f:
        json.dump(man, f, indent=1)
    print("claimed:", " ".join(cl))


if __name__ == "__main__":
    main()
