#!/usr/bin/env python3
"""Apply a patch to a scratch worktree of /repo and run checks against it (VERIF_REPO).

usage: trymut.py <patch.diff> <ID> [<ID>...] [--tier quick] [--keep]
Exit status 0 iff every listed check reported a VIOLATION (exit 1) on the mutated tree.
The scratch worktree and its build directories are removed afterwards.
"""
import hashlib
import os
import shutil
import subprocess
import sys
import tempfile

VERIF = os.path.dirname(os.path.dirname(os.path.abspath(__file__)))


def main():
    args = sys.argv[1:]
    tier = "quick"
    keep = False
    if "--tier" in args:
        i = args.index("--tier")
        tier = args[i + 1]
        del args[i:i + 2]
    if "--keep" in args:
        keep = True
        args.remove("--keep")
    patch, ids = os.path.abspath(args[0]), args[1:]
    wt = tempfile.mkdtemp(prefix="mut-", dir="/tmp")
    os.rmdir(wt)
    subprocess.run(["git", "-C", "/repo", "worktree", "add", "--detach", wt, "HEAD"], check=True,
                   stdout=subprocess.DEVNULL, stderr=subprocess.DEVNULL)
    ok = True
    try:
        r = subprocess.run(["git", "-C", wt, "apply", patch])
        if r.returncode != 0:
            print("PATCH DOES NOT APPLY")
            return 2
        for pid in ids:
            env = dict(os.environ, VERIF_REPO=wt, VERIF_NO_EVIDENCE="1")
            r = subprocess.run([os.path.join(VERIF, "check"), pid, "--tier", tier], env=env,
                               stdout=subprocess.PIPE, stderr=subprocess.STDOUT, text=True)
            viol = [l for l in r.stdout.splitlines() if l.startswith("VIOLATION")]
            print("%s: exit=%d violations=%d %s" % (pid, r.returncode, len(viol), (viol[0][:300] if viol else r.stdout[-300:].replace("\n", " | "))))
            if r.returncode != 1:
                ok = False
    finally:
        if not keep:
            suffix = "-" + hashlib.sha1(os.path.abspath(wt).encode()).hexdigest()[:10]
            for d in os.listdir(os.path.join(VERIF, "build")):
                if d.endswith(suffix):
                    shutil.rmtree(os.path.join(VERIF, "build", d), ignore_errors=True)
            subprocess.run(["git", "-C", "/repo", "worktree", "remove", "--force", wt],
                           stdout=subprocess.DEVNULL, stderr=subprocess.DEVNULL)
            shutil.rmtree(wt, ignore_errors=True)
    return 0 if ok else 1


if __name__ == "__main__":
    sys.exit(main())
