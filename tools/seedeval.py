#!/usr/bin/env python3
"""Validate a sub-agent's seeded change and run our checks against it.

usage: seedeval.py <src_dir> <PROP> <name> [--checks C05,C07] [--tier quick] [--no-confirm]

<src_dir> holds patch.diff, demo/ (run.sh [repo-root]) and README.md as delivered by the sub-agent.
Steps, all in a scratch worktree of /repo outside /repo and /verif (removed afterwards):
  1. pristine tree: demo must pass (exit 0)
  2. patch applies; repository builds; its own test suite passes (ctest)
  3. patched tree: demo must fail (exit != 0)
  4. our check(s) for the property run with VERIF_REPO=<patched worktree>: exit 1 + VIOLATION = caught
The result is written to /verif/seeded/<PROP>-<name>/ (patch.diff, demo/, README.md, meta.json).
"""
import hashlib
import json
import os
import shutil
import subprocess
import sys
import tempfile
import time

VERIF = os.path.dirname(os.path.dirname(os.path.abspath(__file__)))


def sh(cmd, cwd=None, env=None, timeout=3600):
    t0 = time.time()
    try:
        r = subprocess.run(cmd, cwd=cwd, env=env, shell=isinstance(cmd, str), stdout=subprocess.PIPE, stderr=subprocess.STDOUT,
                           text=True, timeout=timeout, errors="replace")
        return r.returncode, r.stdout, time.time() - t0
    except subprocess.TimeoutExpired as e:
        return "timeout", (e.stdout or b"").decode("utf-8", "replace") if isinstance(e.stdout, bytes) else (e.stdout or ""), time.time() - t0


def main():
    args = sys.argv[1:]
    tier = "quick"
    checks = None
    confirm = True
    if "--tier" in args:
        i = args.index("--tier"); tier = args[i + 1]; del args[i:i + 2]
    if "--checks" in args:
        i = args.index("--checks"); checks = args[i + 1].split(","); del args[i:i + 2]
    if "--no-confirm" in args:
        confirm = False; args.remove("--no-confirm")
    src, prop, name = os.path.abspath(args[0]), args[1], args[2]
    checks = checks or [prop]
    dest = os.path.join(VERIF, "seeded", "%s-%s" % (prop, name))
    patch = os.path.join(src, "patch.diff")
    meta = {"property": prop, "name": name, "ran": []}
    old = {}
    if os.path.exists(os.path.join(dest, "meta.json")):
        old = json.load(open(os.path.join(dest, "meta.json")))
    wt = tempfile.mkdtemp(prefix="sv-", dir="/tmp")
    os.rmdir(wt)
    subprocess.run(["git", "-C", "/repo", "worktree", "add", "--detach", wt, "HEAD"], check=True,
                   stdout=subprocess.DEVNULL, stderr=subprocess.DEVNULL)
    env = dict(os.environ, QT_QPA_PLATFORM="offscreen")
    try:
        demo = os.path.join(src, "demo", "run.sh")
        if confirm:
            rc, out, dt = sh(["bash", demo, wt], cwd=os.path.join(src, "demo"), env=env, timeout=1800)
            meta["demo_on_pristine"] = {"exit": rc, "tail": out[-400:], "s": round(dt, 1)}
            meta["ran"].append("bash demo/run.sh <pristine worktree> -> exit %s" % rc)
        rc, out, _ = sh(["git", "-C", wt, "apply", "--whitespace=nowarn", patch])
        if rc != 0:
            print("PATCH DOES NOT APPLY:", out)
            meta["applies"] = False
            return 2
        meta["applies"] = True
        if confirm:
            rc, out, dt = sh("cmake -G Ninja -S . -B _build -DQTLOGGER_NO_EXAMPLES=ON -DCMAKE_BUILD_TYPE=Debug >/dev/null && cmake --build _build -j16 2>&1 | tail -5 && "
                             "ctest --test-dir _build -j8 --timeout 900 2>&1 | tail -4", cwd=wt, env=env, timeout=3600)
            retries = 0
            while (rc != 0 or "100% tests passed" not in out) and retries < 3 and "tests failed" in out:
                # the suite has timing-sensitive tests (OwnThreadHandlerTest) that fail under heavy machine load: re-run only those
                retries += 1
                rc, out, dt = sh("ctest --test-dir _build --rerun-failed --timeout 900 2>&1 | tail -4", cwd=wt, env=env, timeout=3600)
            meta["suite_with_patch"] = {"exit": rc, "tail": out[-300:], "s": round(dt, 1), "reruns_of_failed_tests": retries}
            meta["ran"].append("cmake build + ctest -j8 on the patched worktree -> exit %s" % rc)
            rc2, out2, dt2 = sh(["bash", demo, wt], cwd=os.path.join(src, "demo"), env=env, timeout=1800)
            meta["demo_on_patched"] = {"exit": rc2, "tail": out2[-600:], "s": round(dt2, 1)}
            meta["ran"].append("bash demo/run.sh <patched worktree> -> exit %s" % rc2)
            meta["confirmed"] = (meta["demo_on_pristine"]["exit"] == 0 and rc == 0 and "100% tests passed" in out
                                 and rc2 not in (0, "timeout"))
            shutil.rmtree(os.path.join(wt, "_build"), ignore_errors=True)
        else:
            for k in ("demo_on_pristine", "suite_with_patch", "demo_on_patched", "confirmed"):
                if k in old:
                    meta[k] = old[k]
        meta["checks"] = old.get("checks", {})
        for pid in checks:
            cenv = dict(os.environ, VERIF_REPO=wt, VERIF_NO_EVIDENCE="1")
            rc, out, dt = sh([os.path.join(VERIF, "check"), pid, "--tier", tier], env=cenv, timeout=6 * 3600)
            viol = [l for l in out.splitlines() if l.startswith("VIOLATION")]
            meta["checks"]["%s/%s" % (pid, tier)] = {"exit": rc, "caught": rc == 1 and bool(viol), "violations": len(viol),
                                                    "first": (viol[0][:500] if viol else out[-300:]), "s": round(dt, 1)}
            meta["ran"].append("VERIF_REPO=<patched worktree> ./check %s --tier %s -> exit %s, %d VIOLATION lines" % (pid, tier, rc, len(viol)))
            print("%s-%s: check %s/%s exit=%s violations=%d (%.0fs) %s" % (prop, name, pid, tier, rc, len(viol), dt, viol[0][:260] if viol else out[-200:].replace("\n", " | ")))
    finally:
        suffix = "-" + hashlib.sha1(os.path.abspath(wt).encode()).hexdigest()[:10]
        bdir = os.path.join(VERIF, "build")
        if os.path.isdir(bdir):
            for d in os.listdir(bdir):
                if d.endswith(suffix):
                    shutil.rmtree(os.path.join(bdir, d), ignore_errors=True)
        subprocess.run(["git", "-C", "/repo", "worktree", "remove", "--force", wt], stdout=subprocess.DEVNULL, stderr=subprocess.DEVNULL)
        shutil.rmtree(wt, ignore_errors=True)
    os.makedirs(dest, exist_ok=True)
    shutil.copy(patch, os.path.join(dest, "patch.diff"))
    if os.path.isdir(os.path.join(src, "demo")) and os.path.abspath(src) != os.path.abspath(dest):
        shutil.rmtree(os.path.join(dest, "demo"), ignore_errors=True)
        shutil.copytree(os.path.join(src, "demo"), os.path.join(dest, "demo"),
                        ignore=shutil.ignore_patterns("*.o", "demo_bin", "a.out", "_build", "build", "*.log"))
    if os.path.exists(os.path.join(src, "README.md")) and os.path.abspath(src) != os.path.abspath(dest):
        shutil.copy(os.path.join(src, "README.md"), os.path.join(dest, "README.md"))
    if "needs" in old:
        meta["needs"] = old["needs"]
    json.dump(meta, open(os.path.join(dest, "meta.json"), "w"), indent=1)
    print("%s-%s: confirmed=%s" % (prop, name, meta.get("confirmed")))
    return 0


if __name__ == "__main__":
    sys.exit(main())
