#!/usr/bin/env python3-vt
import json, jsonschema, glob, sys
jsonschema.validate(json.load(open('/verif/MANIFEST.json')), json.load(open('/root/.vp/MANIFEST.schema.json')))
es = json.load(open('/root/.vp/EVIDENCE.schema.json'))
for f in sorted(glob.glob('/verif/evidence/C*.json')):
    jsonschema.validate(json.load(open(f)), es)
    print('ok', f)
print('manifest valid')
