#!/usr/bin/env python3
"""Builds the committed seed corpus for C14 from the repository's tests and docs (pattern / rule / signature literals) plus a few
grammar-generated signatures.  Run once when the repository's literals change; the result lives in /verif/corpus/<target>/."""
import hashlib
import os
import random
import re
import sys

HERE = os.path.dirname(os.path.dirname(os.path.abspath(__file__)))
sys.path.insert(0, HERE)
from vlib.props import c12, c15  # noqa: E402

REPO = "/repo"


def literals():
    out = []
    for root in ("tests", "docs", "examples", "README.md"):
        p = os.path.join(REPO, root)
        files = [p] if os.path.isfile(p) else [os.path.join(d, f) for d, _, fs in os.walk(p) for f in fs]
        for f in files:
            if not f.endswith((".cpp", ".h", ".md", ".ini")):
                continue
            try:
                text = open(f, errors="replace").read()
            except OSError:
                continue
            out += re.findall(r'"((?:[^"\\\n]|\\.){2,300})"', text)
            out += re.findall(r"`([^`\n]{2,200})`", text)
    return sorted(set(out))


def put(target, data):
    d = os.path.join(HERE, "corpus", target)
    os.makedirs(d, exist_ok=True)
    if isinstance(data, str):
        data = data.encode("utf-8", "replace")
    open(os.path.join(d, hashlib.sha1(data).hexdigest()[:16]), "wb").write(data)


def main():
    lits = literals()
    rnd = random.Random(14)
    n = 0
    for s in lits:
        s2 = s.replace('\\"', '"').replace("\\\\", "\\").replace("\\n", "\n").replace("\\t", "\t")
        if "%{" in s2 or "%%" in s2:
            put("pattern", s2)
            n += 1
        if re.search(r"=\s*(true|false)", s2):
            put("catfilter", s2)
        if "::" in s2 or "(" in s2 and ")" in s2:
            put("func", s2)
        if len(s2) < 80:
            put("regexp", "\x05" + s2)
            put("pretty", s2)
    for _ in range(60):
        sig, _ = c12.gen_func(rnd)
        put("func", sig)
        put("pattern", c12.gen_pattern(rnd)[0])
        put("pattern", c12.gen_hostile_pattern(rnd))
        put("catfilter", c15.gen_case(rnd)[0])
    for t in ("json", "sentry", "filters"):
        for s in lits[:40]:
            put(t, s)
    for extra in ["auto ns::f()::<lambda(int)>", "void (*ns::g(int))(char)", "T ns::C<T>::operator()(U) const [with T = int; U = std::vector<int>]",
                  "operator<<", "<lambda>", "int main(int, char**)", "static void A::B::c() noexcept"]:
        put("func", extra)
    print("pattern literals:", n, "total files:", sum(len(fs) for _, _, fs in os.walk(os.path.join(HERE, "corpus"))))


if __name__ == "__main__":
    main()
