#!/usr/bin/env python3
"""Detection regression: re-run, against every stored breaking change (seeded/<id>-<name>/patch.diff, mutants/<id>/*.diff), the
check(s) that are recorded as catching it, each in its own scratch worktree of /repo (VERIF_REPO), and report what is still caught.

usage: regress.py [--jobs N] [--only PREFIX[,PREFIX...]] [--tier quick]
Exit 0 iff every change that was caught before is still caught (and every NEG-* control still passes).
Writes seeded/REGRESSION.json.  Worktrees and their build directories live under /tmp and build/ and are removed as each case ends.
"""
import glob
import hashlib
import json
import os
import shutil
import subprocess
import sys
import tempfile
import time
from concurrent.futures import ThreadPoolExecutor

VERIF = os.path.dirname(os.path.dirname(os.path.abspath(__file__)))


def cases(only):
    out = []
    for d in sorted(glob.glob(os.path.join(VERIF, "seeded", "*-*"))):
        name = os.path.basename(d)
        mp = os.path.join(d, "meta.json")
        if not os.path.exists(mp):
            continue
        meta = json.load(open(mp))
        checks = sorted({k.split("/")[0] for k, v in meta.get("checks", {}).items() if v.get("caught")})
        patch = os.path.join(d, "patch.diff")
        out.append(dict(name="seeded/" + name, patch=patch, checks=checks, expect=bool(checks)))
    for p in sorted(glob.glob(os.path.join(VERIF, "mutants", "*", "*.diff"))):
        pid = os.path.basename(os.path.dirname(p))
        neg = os.path.basename(p).startswith("NEG-")
        out.append(dict(name="mutants/%s/%s" % (pid, os.path.basename(p)[:-5]), patch=p, checks=[pid], expect=not neg))
    if only:
        out = [c for c in out if any(c["name"].split("/", 1)[1].startswith(o) or c["name"].startswith(o) for o in only)]
    return out


def run_case(c, tier):
    t0 = time.time()
    res = dict(name=c["name"], checks={}, ok=True)
    if not c["checks"]:
        res["note"] = "recorded as not caught by any check"
        return res
    wt = tempfile.mkdtemp(prefix="rg-", dir="/tmp")
    os.rmdir(wt)
    subprocess.run(["git", "-C", "/repo", "worktree", "add", "--detach", wt, "HEAD"], check=True, stdout=subprocess.DEVNULL,
                   stderr=subprocess.DEVNULL)
    try:
        r = subprocess.run(["git", "-C", wt, "apply", c["patch"]], stdout=subprocess.PIPE, stderr=subprocess.STDOUT, text=True)
        if r.returncode != 0:
            res["ok"] = False
            res["note"] = "patch does not apply: " + r.stdout[-300:]
            return res
        caught_any = False
        for pid in c["checks"]:
            env = dict(os.environ, VERIF_REPO=wt, VERIF_NO_EVIDENCE="1")
            r = subprocess.run([os.path.join(VERIF, "check"), pid, "--tier", tier], env=env, stdout=subprocess.PIPE,
                               stderr=subprocess.STDOUT, text=True, errors="replace")
            viol = [l for l in r.stdout.splitlines() if l.startswith("VIOLATION")]
            res["checks"][pid] = dict(exit=r.returncode, violations=len(viol), first=(viol[0][:240] if viol else r.stdout[-240:]))
            if r.returncode == 1 and viol:
                caught_any = True
                break
        res["caught"] = caught_any
        res["ok"] = caught_any == c["expect"]
    finally:
        suffix = "-" + hashlib.sha1(os.path.abspath(wt).encode()).hexdigest()[:10]
        for d in os.listdir(os.path.join(VERIF, "build")):
            if d.endswith(suffix):
                shutil.rmtree(os.path.join(VERIF, "build", d), ignore_errors=True)
        subprocess.run(["git", "-C", "/repo", "worktree", "remove", "--force", wt], stdout=subprocess.DEVNULL, stderr=subprocess.DEVNULL)
        shutil.rmtree(wt, ignore_errors=True)
        res["s"] = round(time.time() - t0, 1)
    return res


def main():
    args = sys.argv[1:]
    jobs, tier, only = 3, "quick", None
    if "--jobs" in args:
        i = args.index("--jobs"); jobs = int(args[i + 1]); del args[i:i + 2]
    if "--tier" in args:
        i = args.index("--tier"); tier = args[i + 1]; del args[i:i + 2]
    if "--only" in args:
        i = args.index("--only"); only = args[i + 1].split(","); del args[i:i + 2]
    cs = cases(only)
    results = []
    with ThreadPoolExecutor(max_workers=jobs) as ex:
        for r in ex.map(lambda c: run_case(c, tier), cs):
            results.append(r)
            print("%-4s %-55s %s %s" % ("ok" if r["ok"] else "LOST", r["name"],
                                        " ".join("%s:exit=%s,v=%d" % (k, v["exit"], v["violations"]) for k, v in r["checks"].items()),
                                        r.get("note", "")), flush=True)
    bad = [r for r in results if not r["ok"]]
    if not only:
        json.dump(dict(tier=tier, cases=len(results), lost=[r["name"] for r in bad], results=results),
                  open(os.path.join(VERIF, "seeded", "REGRESSION.json"), "w"), indent=1)
    print("%d cases, %d lost" % (len(results), len(bad)))
    return 0 if not bad else 1


if __name__ == "__main__":
    sys.exit(main())
