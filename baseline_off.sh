#!/bin/sh
# Repository's own test suite with the verification guard OFF (no -DQTLOGGER_VERIF anywhere).
set -e
cd "$(dirname "$0")"
B=build/baseline
cmake -G Ninja -S "${VERIF_REPO:-/repo}" -B $B -DQTLOGGER_NO_EXAMPLES=ON -DCMAKE_BUILD_TYPE=Debug >/dev/null
cmake --build $B -j"$(nproc)" >/dev/null
ctest --test-dir $B -j8 --timeout 900 --output-junit "$PWD/$B/junit.xml"
