// ThreadSanitizer does not see QMutex (futex code inside the uninstrumented libQt5Core).  The tsan
// drivers are linked with --wrap for QMutex::lock/unlock/tryLock (QRecursiveMutex and QMutexLocker
// resolve to the same out-of-line symbols in Qt 5.15); the wrappers forward to the real functions
// and tell TSan about the acquire/release edges.
#include <QMutex>

extern "C" void __tsan_acquire(void *addr);
extern "C" void __tsan_release(void *addr);

extern "C" {
void __real__ZN6QMutex4lockEv(QMutex *self);
void __real__ZN6QMutex6unlockEv(QMutex *self);
bool __real__ZN6QMutex7tryLockEi(QMutex *self, int timeout);

void __wrap__ZN6QMutex4lockEv(QMutex *self)
{
    __real__ZN6QMutex4lockEv(self);
    __tsan_acquire(self);
}
void __wrap__ZN6QMutex6unlockEv(QMutex *self)
{
    __tsan_release(self);
    __real__ZN6QMutex6unlockEv(self);
}
bool __wrap__ZN6QMutex7tryLockEi(QMutex *self, int timeout)
{
    bool ok = __real__ZN6QMutex7tryLockEi(self, timeout);
    if (ok) __tsan_acquire(self);
    return ok;
}
}
