// See shim_sys.h.  All "real" operations go through raw syscall(2) so that the interposed symbols
// never recurse into themselves.
#include "shim_sys.h"

#include <cerrno>
#include <cstdarg>
#include <cstdio>
#include <cstdlib>
#include <cstring>
#include <fcntl.h>
#include <sys/stat.h>
#include <sys/syscall.h>
#include <sys/time.h>
#include <sys/types.h>
#include <time.h>
#include <unistd.h>

namespace {

bool g_clockOn = false;
int64_t g_nowNs = 0;
long g_reads = 0;
int g_midnightAt = 0;
int64_t g_granNs = 1;

std::string g_dir; // watched directory prefix, with trailing '/'
bool g_tracked[65536];
std::string g_fdPath[4096];
std::vector<shim::Event> g_events;
long g_mutating = 0;

long g_armK = 0;
long g_armCount = 0;
shim::Mode g_armMode = shim::Off;
int g_armErr = 0;
bool g_fired = false;
bool g_gateCreating = false; // set by doOpen: the open would create the file
long g_thenCrashAt = 0; // after the armed failure fired: crash before the j-th later mutating call (0 = off)
long g_thenCount = 0;
const char *g_firedName = "";

const int64_t DAY_NS = 86400LL * 1000000000LL;

int64_t clockRead()
{
    ++g_reads;
    if (g_midnightAt > 0 && --g_midnightAt == 0) {
        g_nowNs = (g_nowNs / DAY_NS + 1) * DAY_NS;
    }
    return g_nowNs;
}

bool watched(const char *path)
{
    if (!path || g_dir.empty()) return false;
    if (strncmp(path, g_dir.c_str(), g_dir.size()) == 0) return true;
    // the directory itself (without the trailing slash): open(dir, O_TMPFILE) creates an anonymous file in it (QSaveFile, QTemporaryFile)
    return strlen(path) + 1 == g_dir.size() && strncmp(path, g_dir.c_str(), g_dir.size() - 1) == 0;
}

std::string slurp(const char *path, bool *ok)
{
    std::string out;
    *ok = false;
    int fd = int(syscall(SYS_openat, AT_FDCWD, path, O_RDONLY | O_CLOEXEC, 0));
    if (fd < 0) return out;
    char buf[65536];
    for (;;) {
        long n = syscall(SYS_read, fd, buf, sizeof buf);
        if (n <= 0) break;
        out.append(buf, size_t(n));
    }
    syscall(SYS_close, fd);
    *ok = true;
    return out;
}

void stampFd(int fd)
{
    if (!g_clockOn || g_granNs <= 0) return;
    int64_t t = g_nowNs - (g_nowNs % g_granNs);
    struct timespec ts[2];
    ts[0].tv_sec = t / 1000000000LL;
    ts[0].tv_nsec = t % 1000000000LL;
    ts[1] = ts[0];
    syscall(SYS_utimensat, fd, nullptr, ts, 0);
}

// Decide what happens at this mutating call. Returns: 0 = proceed, 1 = fail with errno (set),
// never returns for crashes (except ShortWriteCrash on write, signalled by 2).
int gate(const char *name)
{
    ++g_mutating;
    if (g_armMode != shim::Off && g_fired && g_thenCrashAt > 0 && ++g_thenCount == g_thenCrashAt) {
        // second stage: the process dies at a later boundary, inside whatever fallback the failed call led into
        fprintf(stderr, "SHIM crash-before %s (%ld calls after the injected failure)\n", name, g_thenCrashAt);
        _exit(113);
    }
    if (g_armMode == shim::FailSticky && g_fired) {
        // a persisting condition (directory not writable, disk full): every later call that changes the directory fails too
        const bool ns = strncmp(name, "rename", 6) == 0 || strncmp(name, "link", 4) == 0 || strncmp(name, "unlink", 6) == 0
                || (strcmp(name, "open") == 0 && g_gateCreating);
        if (ns) {
            errno = g_armErr;
            return 1;
        }
        return 0;
    }
    if (g_armMode == shim::Off || g_fired) return 0;
    if (g_armMode == shim::FailSticky) {
        const bool ns = strncmp(name, "rename", 6) == 0 || strncmp(name, "link", 4) == 0 || strncmp(name, "unlink", 6) == 0
                || (strcmp(name, "open") == 0 && g_gateCreating);
        if (++g_armCount < g_armK || !ns) return 0;
        g_fired = true;
        g_firedName = name;
        errno = g_armErr;
        return 1;
    }
    if (++g_armCount != g_armK) return 0;
    g_fired = true;
    g_firedName = name;
    switch (g_armMode) {
    case shim::CrashBefore:
        fprintf(stderr, "SHIM crash-before %s (call %ld)\n", name, g_armK);
        _exit(113);
    case shim::ShortWriteCrash:
        if (strcmp(name, "write") == 0) return 2;
        fprintf(stderr, "SHIM crash-before %s (call %ld)\n", name, g_armK);
        _exit(113);
    case shim::FailErrno:
        errno = g_armErr;
        return 1;
    default:
        return 0;
    }
}

void push(const shim::Event &e)
{
    g_events.push_back(e);
}

int doOpen(int dirfd, const char *path, int flags, mode_t mode, const char *name)
{
    const bool w = watched(path) && dirfd == AT_FDCWD;
    const bool writing = (flags & O_ACCMODE) != O_RDONLY;
    if (w && writing) {
        bool existed = syscall(SYS_faccessat, AT_FDCWD, path, F_OK) == 0;
        g_gateCreating = (!existed && (flags & O_CREAT)) || (flags & O_TMPFILE) == O_TMPFILE;
        int g = gate(name);
        g_gateCreating = false;
        if (g == 1) {
            shim::Event e;
            e.kind = "open";
            e.a = path;
            e.n = flags;
            e.err = errno;
            e.injected = true;
            push(e);
            return -1;
        }
        shim::Event e;
        if (existed && (flags & O_TRUNC)) {
            bool ok = false;
            e.snapA = slurp(path, &ok); // content destroyed by the truncation
            e.hasSnapA = ok;
        }
        int fd = int(syscall(SYS_openat, dirfd, path, flags, mode));
        int saved = errno;
        e.kind = "open";
        e.a = path;
        e.n = flags;
        e.b = existed ? "existed" : "new";
        e.err = fd < 0 ? saved : 0;
        push(e);
        if (fd >= 0 && fd < 65536) {
            g_tracked[fd] = true;
            if (fd < 4096) g_fdPath[fd] = path;
            if (!existed || (flags & O_TRUNC)) stampFd(fd);
        }
        errno = saved;
        return fd;
    }
    return int(syscall(SYS_openat, dirfd, path, flags, mode));
}

} // namespace

namespace shim {

void clockEnable(bool on) { g_clockOn = on; }
void clockSet(int64_t ms) { g_nowNs = ms * 1000000LL; }
int64_t clockNowMs() { return g_nowNs / 1000000LL; }
void clockAdvance(int64_t ms) { g_nowNs += ms * 1000000LL; }
void clockMidnightAtRead(int k) { g_midnightAt = k; }
long clockReads() { return g_reads; }
void setGranularityNs(int64_t ns) { g_granNs = ns; }

void watchDir(const std::string &absDir)
{
    g_dir = absDir;
    if (!g_dir.empty() && g_dir.back() != '/') g_dir.push_back('/');
}

std::vector<Event> drainEvents()
{
    std::vector<Event> r;
    r.swap(g_events);
    return r;
}
long mutatingCalls() { return g_mutating; }

void arm(long k, Mode m, int err)
{
    g_armK = k;
    g_armCount = 0;
    g_armMode = m;
    g_armErr = err;
    g_fired = false;
    g_thenCrashAt = 0;
    g_thenCount = 0;
}
void thenCrashAt(long j)
{
    g_thenCrashAt = j;
    g_thenCount = 0;
}
bool faultFired() { return g_fired; }
const char *faultCallName() { return g_firedName; }

} // namespace shim

// ------------------------------------------------------------------------------------------
// interposed libc entry points

extern "C" {

int gettimeofday(struct timeval *tv, void *tz) noexcept
{
    if (!g_clockOn) return int(syscall(SYS_gettimeofday, tv, tz));
    int64_t t = clockRead();
    if (tv) {
        tv->tv_sec = t / 1000000000LL;
        tv->tv_usec = (t % 1000000000LL) / 1000;
    }
    return 0;
}

int clock_gettime(clockid_t id, struct timespec *ts) noexcept
{
    if (!g_clockOn || id != CLOCK_REALTIME) return int(syscall(SYS_clock_gettime, id, ts));
    int64_t t = clockRead();
    ts->tv_sec = t / 1000000000LL;
    ts->tv_nsec = t % 1000000000LL;
    return 0;
}

time_t time(time_t *out) noexcept
{
    if (!g_clockOn) return time_t(syscall(SYS_time, out));
    time_t t = time_t(clockRead() / 1000000000LL);
    if (out) *out = t;
    return t;
}

int open(const char *path, int flags, ...)
{
    mode_t mode = 0;
    if (flags & (O_CREAT | O_TMPFILE)) {
        va_list ap;
        va_start(ap, flags);
        mode = va_arg(ap, mode_t);
        va_end(ap);
    }
    return doOpen(AT_FDCWD, path, flags, mode, "open");
}

int open64(const char *path, int flags, ...)
{
    mode_t mode = 0;
    if (flags & (O_CREAT | O_TMPFILE)) {
        va_list ap;
        va_start(ap, flags);
        mode = va_arg(ap, mode_t);
        va_end(ap);
    }
    return doOpen(AT_FDCWD, path, flags, mode, "open");
}

int openat(int dirfd, const char *path, int flags, ...)
{
    mode_t mode = 0;
    if (flags & (O_CREAT | O_TMPFILE)) {
        va_list ap;
        va_start(ap, flags);
        mode = va_arg(ap, mode_t);
        va_end(ap);
    }
    return doOpen(dirfd, path, flags, mode, "open");
}

int openat64(int dirfd, const char *path, int flags, ...)
{
    mode_t mode = 0;
    if (flags & (O_CREAT | O_TMPFILE)) {
        va_list ap;
        va_start(ap, flags);
        mode = va_arg(ap, mode_t);
        va_end(ap);
    }
    return doOpen(dirfd, path, flags, mode, "open");
}

int creat(const char *path, mode_t mode) { return doOpen(AT_FDCWD, path, O_CREAT | O_WRONLY | O_TRUNC, mode, "open"); }
int creat64(const char *path, mode_t mode) { return doOpen(AT_FDCWD, path, O_CREAT | O_WRONLY | O_TRUNC, mode, "open"); }

ssize_t write(int fd, const void *buf, size_t n)
{
    if (fd >= 0 && fd < 65536 && g_tracked[fd]) {
        int g = gate("write");
        if (g == 1) {
            shim::Event e;
            e.kind = "write";
            e.a = fd < 4096 ? g_fdPath[fd] : "";
            e.err = errno;
            e.injected = true;
            push(e);
            return -1;
        }
        if (g == 2) {
            size_t half = n / 2;
            if (half) syscall(SYS_write, fd, buf, half);
            stampFd(fd);
            fprintf(stderr, "SHIM short-write %zu/%zu then crash\n", half, n);
            _exit(113);
        }
        ssize_t r = syscall(SYS_write, fd, buf, n);
        int saved = errno;
        shim::Event e;
        e.kind = "write";
        e.a = fd < 4096 ? g_fdPath[fd] : "";
        e.n = r;
        e.err = r < 0 ? saved : 0;
        push(e);
        if (r > 0) stampFd(fd);
        errno = saved;
        return r;
    }
    return syscall(SYS_write, fd, buf, n);
}

int close(int fd)
{
    if (fd >= 0 && fd < 65536 && g_tracked[fd]) {
        int g = gate("close");
        (void)g; // a failing close still closes the descriptor; inject nothing but count the boundary
        g_tracked[fd] = false;
        shim::Event e;
        e.kind = "close";
        e.a = fd < 4096 ? g_fdPath[fd] : "";
        push(e);
    }
    return int(syscall(SYS_close, fd));
}

static int doRename(int od, const char *o, int nd, const char *n, unsigned flags, const char *name)
{
    if (watched(o) || watched(n)) {
        int g = gate(name);
        shim::Event e;
        e.kind = "rename";
        e.a = o ? o : "";
        e.b = n ? n : "";
        e.n = flags;
        if (g == 1) {
            e.err = errno;
            e.injected = true;
            push(e);
            return -1;
        }
        bool ok = false;
        std::string tgt = slurp(n, &ok);
        if (ok) {
            e.snapB = tgt;
            e.hasSnapB = true;
        }
        int r = int(syscall(SYS_renameat2, od, o, nd, n, flags));
        int saved = errno;
        e.err = r < 0 ? saved : 0;
        push(e);
        errno = saved;
        return r;
    }
    return int(syscall(SYS_renameat2, od, o, nd, n, flags));
}

int rename(const char *o, const char *n) { return doRename(AT_FDCWD, o, AT_FDCWD, n, 0, "rename"); }
int renameat(int od, const char *o, int nd, const char *n) { return doRename(od, o, nd, n, 0, "rename"); }
int renameat2(int od, const char *o, int nd, const char *n, unsigned flags) { return doRename(od, o, nd, n, flags, "renameat2"); }

static int doLink(int od, const char *o, int nd, const char *n, int flags)
{
    if (watched(o) || watched(n)) {
        int g = gate("link");
        shim::Event e;
        e.kind = "link";
        e.a = o ? o : "";
        e.b = n ? n : "";
        if (g == 1) {
            e.err = errno;
            e.injected = true;
            push(e);
            return -1;
        }
        int r = int(syscall(SYS_linkat, od, o, nd, n, flags));
        int saved = errno;
        e.err = r < 0 ? saved : 0;
        push(e);
        errno = saved;
        return r;
    }
    return int(syscall(SYS_linkat, od, o, nd, n, flags));
}

int link(const char *o, const char *n) { return doLink(AT_FDCWD, o, AT_FDCWD, n, 0); }
int linkat(int od, const char *o, int nd, const char *n, int flags) { return doLink(od, o, nd, n, flags); }

static int doUnlink(int dirfd, const char *path, int flags)
{
    if (watched(path)) {
        int g = gate("unlink");
        shim::Event e;
        e.kind = "unlink";
        e.a = path;
        if (g == 1) {
            e.err = errno;
            e.injected = true;
            push(e);
            return -1;
        }
        bool ok = false;
        e.snapA = slurp(path, &ok);
        e.hasSnapA = ok;
        std::string gz = std::string(path) + ".gz";
        bool ok2 = false;
        e.snapGz = slurp(gz.c_str(), &ok2);
        e.hasSnapGz = ok2;
        int r = int(syscall(SYS_unlinkat, dirfd, path, flags));
        int saved = errno;
        e.err = r < 0 ? saved : 0;
        push(e);
        errno = saved;
        return r;
    }
    return int(syscall(SYS_unlinkat, dirfd, path, flags));
}

int unlink(const char *path) { return doUnlink(AT_FDCWD, path, 0); }
int unlinkat(int dirfd, const char *path, int flags) { return doUnlink(dirfd, path, flags); }

int ftruncate(int fd, off_t len)
{
    if (fd >= 0 && fd < 65536 && g_tracked[fd]) {
        int g = gate("ftruncate");
        shim::Event e;
        e.kind = "ftruncate";
        e.a = fd < 4096 ? g_fdPath[fd] : "";
        e.n = len;
        if (g == 1) {
            e.err = errno;
            e.injected = true;
            push(e);
            return -1;
        }
        push(e);
    }
    return int(syscall(SYS_ftruncate, fd, len));
}
int ftruncate64(int fd, off_t len) { return ftruncate(fd, len); }

int fsync(int fd)
{
    if (fd >= 0 && fd < 65536 && g_tracked[fd]) {
        gate("fsync");
        shim::Event e;
        e.kind = "fsync";
        e.a = fd < 4096 ? g_fdPath[fd] : "";
        push(e);
    }
    return int(syscall(SYS_fsync, fd));
}
int fdatasync(int fd)
{
    if (fd >= 0 && fd < 65536 && g_tracked[fd]) {
        gate("fsync");
        shim::Event e;
        e.kind = "fsync";
        e.a = fd < 4096 ? g_fdPath[fd] : "";
        push(e);
    }
    return int(syscall(SYS_fdatasync, fd));
}

} // extern "C"
