// Stand-alone replay of fuzz inputs (gcc build, no sanitizer) so that the final corpus can be run under valgrind memcheck:
// a second out-of-bounds detector with a different mechanism (no red zones, no quarantine limit).  usage: fuzz_replay <file>...
#include <cstdint>
#include <cstdio>
#include <fstream>
#include <iterator>
#include <vector>

extern "C" int LLVMFuzzerInitialize(int *, char ***);
extern "C" int LLVMFuzzerTestOneInput(const uint8_t *data, size_t size);

int main(int argc, char **argv)
{
    LLVMFuzzerInitialize(&argc, &argv);
    int n = 0;
    for (int i = 1; i < argc; ++i) {
        std::ifstream f(argv[i], std::ios::binary);
        if (!f) continue;
        std::vector<uint8_t> data((std::istreambuf_iterator<char>(f)), std::istreambuf_iterator<char>());
        LLVMFuzzerTestOneInput(data.data(), data.size());
        ++n;
    }
    printf("replayed %d inputs\n", n);
    return 0;
}
