// drv_rot — executes a history script against the real file sinks under a virtual clock and a
// syscall monitor; writes a JSON-lines trace (one record per operation).  No oracle logic here.
// usage: drv_rot <script> <trace>
#include <cstdio>
#include <cstdlib>
#include <cstring>
#include <dirent.h>
#include <fcntl.h>
#include <fstream>
#include <map>
#include <sstream>
#include <string>
#include <sys/stat.h>
#include <vector>

#include <QtCore>

#include "qtlogger/qtlogger.h"
#include "shim_sys.h"

using namespace QtLogger;

namespace {

int hv(char c)
{
    if (c >= '0' && c <= '9') return c - '0';
    if (c >= 'a' && c <= 'f') return c - 'a' + 10;
    return 0;
}
std::string unhexb(const std::string &h)
{
    std::string r;
    if (h == "-") return r;
    for (size_t k = 0; k + 1 < h.size(); k += 2) r.push_back(char(hv(h[k]) * 16 + hv(h[k + 1])));
    return r;
}
QString unhexs(const std::string &h)
{
    if (h == "-") return QString("");
    std::vector<QChar> u;
    for (size_t k = 0; k + 3 < h.size(); k += 4)
        u.push_back(QChar(ushort((hv(h[k]) * 16 + hv(h[k + 1])) | ((hv(h[k + 2]) * 16 + hv(h[k + 3])) << 8))));
    return QString(u.data(), int(u.size()));
}
std::string hexOf(const std::string &b)
{
    static const char *d = "0123456789abcdef";
    std::string r;
    r.reserve(b.size() * 2);
    for (unsigned char c : b) {
        r.push_back(d[c >> 4]);
        r.push_back(d[c & 15]);
    }
    return r;
}

struct Seen
{
    long long size;
    long long mtimeNs;
    unsigned long ino;
    long long ctimeNs; // real change time: distinguishes a recycled inode with equal size and stamped mtime
};

std::string g_dir;
std::map<std::string, Seen> g_seen;
FILE *g_trace = nullptr;
int g_opIndex = 0;

std::string readFile(const std::string &p)
{
    std::ifstream f(p, std::ios::binary);
    std::stringstream ss;
    ss << f.rdbuf();
    return ss.str();
}

std::string eventsJson(const std::vector<shim::Event> &evs)
{
    std::string s = "[";
    bool first = true;
    for (const auto &e : evs) {
        if (!first) s += ",";
        first = false;
        s += "{\"k\":\"" + e.kind + "\",\"a\":\"" + e.a + "\",\"b\":\"" + e.b + "\",\"n\":" + std::to_string(e.n)
                + ",\"err\":" + std::to_string(e.err) + ",\"inj\":" + (e.injected ? "1" : "0");
        if (e.hasSnapA) s += ",\"snap\":\"" + hexOf(e.snapA) + "\"";
        if (e.hasSnapGz) s += ",\"snapgz\":\"" + hexOf(e.snapGz) + "\"";
        if (e.hasSnapB) s += ",\"snaptarget\":\"" + hexOf(e.snapB) + "\"";
        s += "}";
    }
    return s + "]";
}

std::string dirJson()
{
    std::string s = "[";
    bool first = true;
    std::vector<std::string> names;
    if (DIR *d = opendir(g_dir.c_str())) {
        while (dirent *de = readdir(d)) {
            std::string n = de->d_name;
            if (n == "." || n == "..") continue;
            names.push_back(n);
        }
        closedir(d);
    }
    std::sort(names.begin(), names.end());
    std::map<std::string, Seen> now;
    for (const auto &n : names) {
        struct stat st;
        std::string p = g_dir + "/" + n;
        if (lstat(p.c_str(), &st) != 0) continue;
        if (!first) s += ",";
        first = false;
        long long mt = (long long)st.st_mtim.tv_sec * 1000000000LL + st.st_mtim.tv_nsec;
        s += "{\"name\":\"" + n + "\",\"size\":" + std::to_string((long long)st.st_size) + ",\"mtime\":" + std::to_string(mt);
        if (S_ISDIR(st.st_mode)) {
            s += ",\"dir\":1}";
            continue;
        }
        Seen cur { (long long)st.st_size, mt, (unsigned long)st.st_ino,
                   (long long)st.st_ctim.tv_sec * 1000000000LL + st.st_ctim.tv_nsec };
        auto it = g_seen.find(n);
        if (it != g_seen.end() && it->second.size == cur.size && it->second.mtimeNs == cur.mtimeNs && it->second.ino == cur.ino
            && it->second.ctimeNs == cur.ctimeNs) {
            s += ",\"same\":1}";
        } else {
            s += ",\"hex\":\"" + hexOf(readFile(p)) + "\"}";
        }
        now[n] = cur;
    }
    g_seen.swap(now);
    return s + "]";
}

void emitRec(const std::string &cmd, const std::string &extra, bool withDir)
{
    auto evs = shim::drainEvents();
    std::string line = "{\"i\":" + std::to_string(g_opIndex++) + ",\"cmd\":\"" + cmd + "\",\"vnow\":" + std::to_string(shim::clockNowMs())
            + extra + ",\"events\":" + eventsJson(evs);
    if (withDir) line += ",\"dir\":" + dirJson();
    line += "}\n";
    fputs(line.c_str(), g_trace);
    fflush(g_trace);
}

} // namespace

int main(int argc, char **argv)
{
    if (argc < 3) {
        fprintf(stderr, "usage: drv_rot <script> <trace>\n");
        return 3;
    }
    std::ifstream in(argv[1]);
    g_trace = fopen(argv[2], "w");
    if (!in || !g_trace) {
        fprintf(stderr, "drv_rot: cannot open files\n");
        return 3;
    }
    QSharedPointer<SimplePipeline> pipe;
    int autoObs = 1;
    std::string line;
    while (std::getline(in, line)) {
        if (line.empty() || line[0] == '#') continue;
        std::istringstream is(line);
        std::string cmd;
        is >> cmd;
        if (cmd == "DIR") {
            is >> g_dir;
            shim::watchDir(g_dir);
        } else if (cmd == "CLOCK") {
            std::string v;
            is >> v;
            if (v == "real") {
                shim::clockEnable(false);
            } else {
                shim::clockSet(atoll(v.c_str()));
                shim::clockEnable(true);
            }
        } else if (cmd == "GRAN") {
            long long ns;
            is >> ns;
            shim::setGranularityNs(ns);
        } else if (cmd == "AUTOOBS") {
            is >> autoObs;
        } else if (cmd == "OPEN") {
            std::string path;
            int maxSize, maxCount, options;
            is >> path >> maxSize >> maxCount >> options;
            long r0 = shim::clockReads(), m0 = shim::mutatingCalls();
            pipe = QSharedPointer<SimplePipeline>::create();
            pipe->sendToFile(QString::fromStdString(path), maxSize, maxCount, RotatingFileSink::Options(options));
            emitRec("OPEN", ",\"reads\":" + std::to_string(shim::clockReads() - r0) + ",\"mut\":" + std::to_string(shim::mutatingCalls() - m0), autoObs != 0);
        } else if (cmd == "WRITE") {
            long long id, lag;
            std::string text;
            is >> id >> text >> lag;
            QMessageLogContext ctx("f.cpp", 1, "fn", "rot");
            // lag > 0: the message is delivered lag ms after it was created (the clock moves on in between);
            // lag < 0: the message was created -lag ms ago and is only delivered now, after younger ones (a producer that was pre-empted
            //          between taking the time stamp and the pipeline's lock, or a wall clock that was stepped back)
            if (lag < 0) shim::clockAdvance(lag);
            LogMessage m(QtInfoMsg, ctx, unhexs(text));
            long long msgMs = m.time().toMSecsSinceEpoch();
            if (lag < 0) shim::clockAdvance(-lag);
            if (lag > 0) shim::clockAdvance(lag);
            long r0 = shim::clockReads(), m0 = shim::mutatingCalls();
            if (pipe) pipe->process(m);
            long reads = shim::clockReads() - r0, mut = shim::mutatingCalls() - m0;
            if (autoObs == 1 && pipe) pipe->flush();
            emitRec("WRITE", ",\"id\":" + std::to_string(id) + ",\"msg_ms\":" + std::to_string(msgMs) + ",\"reads\":" + std::to_string(reads)
                          + ",\"mut\":" + std::to_string(mut) + ",\"flushed\":" + (autoObs == 1 ? "1" : "0"),
                 autoObs != 0);
        } else if (cmd == "FLUSH") {
            if (pipe) pipe->flush();
            emitRec("FLUSH", ",\"flushed\":1", true);
        } else if (cmd == "CLOSE") {
            pipe.reset();
            emitRec("CLOSE", ",\"flushed\":1", true);
        } else if (cmd == "ADVANCE") {
            long long ms;
            is >> ms;
            shim::clockAdvance(ms);
        } else if (cmd == "MIDNIGHT") {
            int k;
            is >> k;
            shim::clockMidnightAtRead(k);
        } else if (cmd == "FOREIGN") {
            std::string name, hex;
            is >> name >> hex;
            std::string p = g_dir + "/" + name;
            {
                std::ofstream f(p, std::ios::binary);
                f << unhexb(hex);
            }
            if (shim::clockNowMs() > 0) {
                // a file some other program (or an earlier run) left behind carries the time it was written at, in virtual time
                struct timespec ts[2];
                ts[0].tv_sec = shim::clockNowMs() / 1000;
                ts[0].tv_nsec = (shim::clockNowMs() % 1000) * 1000000L;
                ts[1] = ts[0];
                utimensat(AT_FDCWD, p.c_str(), ts, 0);
            }
            emitRec("FOREIGN", ",\"name\":\"" + name + "\"", true);
        } else if (cmd == "MKDIR") {
            std::string name;
            is >> name;
            mkdir((g_dir + "/" + name).c_str(), 0755);
            emitRec("MKDIR", ",\"name\":\"" + name + "\"", true);
        } else if (cmd == "OBS") {
            emitRec("OBS", "", true);
        } else if (cmd == "ARM") {
            long k;
            int mode, err;
            is >> k >> mode >> err;
            shim::arm(k, shim::Mode(mode), err);
            long then = 0;
            if (is >> then) shim::thenCrashAt(then);
        } else if (cmd == "DISARM") {
            bool fired = shim::faultFired();
            std::string nm = shim::faultCallName();
            shim::arm(0, shim::Off, 0);
            emitRec("DISARM", std::string(",\"fired\":") + (fired ? "1" : "0") + ",\"call\":\"" + nm + "\"", true);
        } else {
            fprintf(stderr, "drv_rot: unknown command %s\n", cmd.c_str());
            return 3;
        }
    }
    pipe.reset();
    emitRec("END", ",\"flushed\":1", true);
    fclose(g_trace);
    return 0;
}
