// hooks_impl — driver-side implementation of the guarded verification hook
// (`qtlogger_verif_point`, guard QTLOGGER_VERIF): schedule noise, per-point counters, an optional
// observer callback, and the ThreadSanitizer annotations for Qt's posted-event hand-off.
#pragma once
#include <cstdint>

namespace vhook {

using Observer = void (*)(const char *point, const void *subject);

// Noise profile: per-mille probabilities evaluated at every hook point whose name starts with
// `prefix` ("" = every point).  Decisions come from a per-thread PRNG seeded from `seed` and the
// thread's arrival index, so a profile is reproducible up to OS scheduling.
void configure(uint64_t seed, int pmYield, int pmSpin, int pmSleep, const char *prefix);
// "seed:yield:spin:sleep[:prefix]" (used with the VERIF_NOISE environment variable by drv_app)
void configureFromString(const char *spec);
void setObserver(Observer o);
uint64_t count(const char *point); // how often the point was reached
uint64_t totalPoints();
uint64_t noiseApplied();

} // namespace vhook
