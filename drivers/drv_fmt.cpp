// drv_fmt — thin executor for formatter / filter / pipeline cases.
// No oracle logic lives here: a case line is decoded, the public qtlogger API is called, what
// came out is written down (hex-encoded).  Usage: drv_fmt <casefile>   (results on stdout)
//
// Line grammar (whitespace separated tokens; strings are hex of UTF-16LE units, "-" = empty,
// byte strings hex of bytes, "~" = nullptr):
//   MSG   := type line file func cat text nattrs (name VALUE)*
//   VALUE := S hex | I int | B 0|1 | D hexbits | N | L n VALUE* | M n (key VALUE)*
//   P <id> <pattern> MSG                    -> R id <out> <time_ms> <threadid>
//   J <id> <compact> MSG                    -> R id <out> <time_ms> <threadid>
//   Y <id> <sdkname> <sdkver> MSG           -> R id <out> <time_ms> <threadid>
//   T <id> <colorize> <width> n MSG*        -> R id <out>*   (pretty formatter, one instance)
//   C <id> <rules> <qt:0|1> n (cat type)*   -> R id (verdict[qtverdict])*
//   Q <id> <kind> <param> <npipes> n (pipe type text|~)* -> R id (verdict[:seq])*
//   O <id> n (op)*                          -> R id (state|exec)*   sorted pipeline
//   X <id> ...                              -> pipeline program (C01), see run_program
//   H <id> n ops*                           -> install/restore history (C19B)

#include <cstdio>
#include <cstdlib>
#include <cstring>
#include <functional>
#include <iostream>
#include <fstream>
#include <sstream>
#include <string>
#include <vector>
#include <memory>
#include <map>
#include <thread>
#include <sys/syscall.h>
#include <sys/time.h>
#include <time.h>
#include <unistd.h>

#include <QtCore>

#ifdef VERIF_HEADER_ONLY
#    include "qtlogger.h"
#else
#    include "qtlogger/qtlogger.h"
#endif

using namespace QtLogger;

namespace {

struct Tok
{
    std::vector<std::string> t;
    size_t i = 0;
    bool has() const { return i < t.size(); }
    const std::string &next()
    {
        if (i >= t.size()) {
            fprintf(stderr, "drv_fmt: token underrun\n");
            exit(3);
        }
        return t[i++];
    }
    long long num() { return atoll(next().c_str()); }
};

int hv(char c)
{
    if (c >= '0' && c <= '9') return c - '0';
    if (c >= 'a' && c <= 'f') return c - 'a' + 10;
    if (c >= 'A' && c <= 'F') return c - 'A' + 10;
    fprintf(stderr, "drv_fmt: bad hex\n");
    exit(3);
}

QByteArray unhexb(const std::string &h)
{
    if (h == "-" || h.empty()) return QByteArray("");
    QByteArray r;
    r.reserve(int(h.size() / 2));
    for (size_t k = 0; k + 1 < h.size(); k += 2) r.append(char(hv(h[k]) * 16 + hv(h[k + 1])));
    return r;
}

QString unhexs(const std::string &h)
{
    if (h == "-" || h.empty()) return QString("");
    std::vector<QChar> u;
    u.reserve(h.size() / 4);
    for (size_t k = 0; k + 3 < h.size(); k += 4) {
        ushort lo = ushort(hv(h[k]) * 16 + hv(h[k + 1]));
        ushort hi = ushort(hv(h[k + 2]) * 16 + hv(h[k + 3]));
        u.push_back(QChar(ushort(lo | (hi << 8))));
    }
    // never fromUtf16: it would eat a leading BOM
    return QString(u.data(), int(u.size()));
}

std::string hexs(const QString &s)
{
    if (s.isNull()) return "~";
    if (s.isEmpty()) return "-";
    static const char *d = "0123456789abcdef";
    std::string r;
    r.reserve(size_t(s.size()) * 4);
    for (QChar c : s) {
        ushort u = c.unicode();
        r.push_back(d[(u >> 4) & 15]);
        r.push_back(d[u & 15]);
        r.push_back(d[(u >> 12) & 15]);
        r.push_back(d[(u >> 8) & 15]);
    }
    return r;
}

std::string hexb(const QByteArray &b)
{
    if (b.isNull()) return "~";
    if (b.isEmpty()) return "-";
    return b.toHex().toStdString();
}

QVariant parseValue(Tok &k)
{
    const std::string c = k.next();
    if (c == "S") return QVariant(unhexs(k.next()));
    if (c == "I") return QVariant(qlonglong(k.num()));
    if (c == "i") return QVariant(int(k.num()));
    if (c == "u") return QVariant(uint(strtoull(k.next().c_str(), nullptr, 10)));
    if (c == "U") return QVariant(qulonglong(strtoull(k.next().c_str(), nullptr, 10)));
    if (c == "B") return QVariant(bool(k.num() != 0));
    if (c == "D") {
        quint64 bits = strtoull(k.next().c_str(), nullptr, 16);
        double d;
        memcpy(&d, &bits, 8);
        return QVariant(d);
    }
    if (c == "F") {
        quint32 bits = quint32(strtoul(k.next().c_str(), nullptr, 16));
        float f;
        memcpy(&f, &bits, 4);
        return QVariant(f);   // QMetaType::Float
    }
    if (c == "N") return QVariant();
    if (c == "Q") return QVariant(QString());   // a null string, e.g. QCoreApplication::applicationVersion() when none was set
    if (c == "L") {
        int n = int(k.num());
        QVariantList l;
        for (int i = 0; i < n; ++i) l.append(parseValue(k));
        return l;
    }
    if (c == "M") {
        int n = int(k.num());
        QVariantMap m;
        for (int i = 0; i < n; ++i) {
            QString key = unhexs(k.next());
            m.insert(key, parseValue(k));
        }
        return m;
    }
    fprintf(stderr, "drv_fmt: bad value tag %s\n", c.c_str());
    exit(3);
}

const QtMsgType kTypes[5] = { QtDebugMsg, QtInfoMsg, QtWarningMsg, QtCriticalMsg, QtFatalMsg };

// Owns the byte buffers a QMessageLogContext points into.
// Virtual wall clock: real time plus an offset that jumps forward by VERIF_LAG_MS right after every message has been built, i.e.
// between the moment a message is logged and the moment it is formatted (what an asynchronous logger or a slow sink does).
long long g_clockOffsetNs = 0;
long long g_lagMs = 0;

extern "C" {
int gettimeofday(struct timeval *tv, void *tz) noexcept
{
    int r = int(syscall(SYS_gettimeofday, tv, tz));
    if (r == 0 && tv && g_clockOffsetNs) {
        long long us = (long long)tv->tv_sec * 1000000LL + tv->tv_usec + g_clockOffsetNs / 1000;
        tv->tv_sec = us / 1000000LL;
        tv->tv_usec = us % 1000000LL;
    }
    return r;
}
long long g_uptimeOffsetNs = 0; // VERIF_UPTIME_DAYS: the machine / the process has been up that much longer

int clock_gettime(clockid_t id, struct timespec *ts) noexcept
{
    int r = int(syscall(SYS_clock_gettime, id, ts));
    if (r == 0 && g_uptimeOffsetNs && (id == CLOCK_MONOTONIC || id == CLOCK_BOOTTIME || id == CLOCK_MONOTONIC_RAW || id == CLOCK_MONOTONIC_COARSE)) {
        long long ns = (long long)ts->tv_sec * 1000000000LL + ts->tv_nsec + g_uptimeOffsetNs;
        ts->tv_sec = ns / 1000000000LL;
        ts->tv_nsec = ns % 1000000000LL;
    }
    if (r == 0 && id == CLOCK_REALTIME && g_clockOffsetNs) {
        long long ns = (long long)ts->tv_sec * 1000000000LL + ts->tv_nsec + g_clockOffsetNs;
        ts->tv_sec = ns / 1000000000LL;
        ts->tv_nsec = ns % 1000000000LL;
    }
    return r;
}
time_t time(time_t *out) noexcept
{
    struct timeval tv;
    gettimeofday(&tv, nullptr);
    if (out) *out = tv.tv_sec;
    return tv.tv_sec;
}
}

struct MsgSpec
{
    QtMsgType type;
    int line;
    QByteArray file, func, cat;
    bool fileNull = false, funcNull = false, catNull = false;
    QString text;
    bool textNull = false;
    QVariantHash attrs;
    QList<QPair<QString, QVariant>> attrList;

    void parse(Tok &k)
    {
        type = kTypes[k.num() % 5];
        line = int(k.num());
        auto rd = [&](QByteArray &b, bool &isNull) {
            const std::string &s = k.next();
            if (s == "~") {
                isNull = true;
            } else {
                b = unhexb(s);
            }
        };
        rd(file, fileNull);
        rd(func, funcNull);
        rd(cat, catNull);
        const std::string &s = k.next();
        if (s == "~") {
            textNull = true;
        } else {
            text = unhexs(s);
        }
        int n = int(k.num());
        for (int i = 0; i < n; ++i) {
            QString name = unhexs(k.next());
            QVariant v = parseValue(k);
            attrs.insert(name, v);
            attrList.append(qMakePair(name, v));
        }
    }

    LogMessage make() const
    {
        // The source-location strings live in caller-owned buffers that are REUSED for every message (what a binding layer that
        // formats into a scratch buffer does): equal pointers therefore do not mean equal text.
        static std::vector<char> bufFile(70016), bufFunc(70016), bufCat(70016);
        auto put = [](std::vector<char> &b, const QByteArray &v) {
            size_t n = std::min(size_t(v.size()), b.size() - 1);
            memcpy(b.data(), v.constData(), n);
            b[n] = 0;
            return b.data();
        };
        QMessageLogContext ctx(fileNull ? nullptr : put(bufFile, file), line, funcNull ? nullptr : put(bufFunc, func),
                               catNull ? nullptr : put(bufCat, cat));
        LogMessage m(type, ctx, textNull ? QString() : text);
        for (const auto &p : attrList) m.setAttribute(p.first, p.second);
        g_clockOffsetNs += g_lagMs * 1000000LL;
        // stay well before 2038: beyond it Qt 5 maps local-time rules onto an "equivalent" earlier year and may disagree with the C
        // library about DST for reasons that have nothing to do with the code under test
        if (g_clockOffsetNs > 8LL * 365 * 86400 * 1000000000LL) g_clockOffsetNs = 0;
        return m;
    }
};

std::string stamp(const LogMessage &m)
{
    std::ostringstream o;
    o << m.time().toMSecsSinceEpoch() << " " << m.threadId() << " "
      << std::chrono::duration_cast<std::chrono::milliseconds>(m.steadyTime().time_since_epoch()).count();
    return o.str();
}

// ---------------------------------------------------------------- sorted pipeline (C17)

struct RecAttr : AttrHandler
{
    int id;
    std::vector<int> *log;
    RecAttr(int i, std::vector<int> *l) : id(i), log(l) { }
    QVariantHash attributes(const LogMessage &) override
    {
        log->push_back(id);
        return {};
    }
};
struct RecFilter : Filter
{
    int id;
    std::vector<int> *log;
    RecFilter(int i, std::vector<int> *l) : id(i), log(l) { }
    bool filter(const LogMessage &) override
    {
        log->push_back(id);
        return true;
    }
};
struct RecFormatter : Formatter
{
    int id;
    std::vector<int> *log;
    RecFormatter(int i, std::vector<int> *l) : id(i), log(l) { }
    QString format(const LogMessage &m) override
    {
        log->push_back(id);
        return m.message();
    }
};
struct RecSink : Sink
{
    int id;
    std::vector<int> *log;
    RecSink(int i, std::vector<int> *l) : id(i), log(l) { }
    void send(const LogMessage &) override { log->push_back(id); }
};

void run_sorted(Tok &k, const std::string &id)
{
    int n = int(k.num());
    SortedPipeline sp;
    std::vector<int> log;
    AttrHandlerPtr lastA;
    FilterPtr lastF;
    FormatterPtr lastM;
    SinkPtr lastS;
    PipelinePtr lastP;
    QHash<Handler *, int> ident;
    int nextId = 1;
    std::ostringstream out;
    out << "R " << id;
    for (int i = 0; i < n; ++i) {
        const std::string op = k.next();
        int hid = nextId++;
        if (op == "aA") {
            auto h = QSharedPointer<RecAttr>::create(hid, &log);
            ident.insert(h.data(), hid);
            sp.appendAttrHandler(h);
            lastA = h;
        } else if (op == "aF") {
            auto h = QSharedPointer<RecFilter>::create(hid, &log);
            ident.insert(h.data(), hid);
            sp.appendFilter(h);
            lastF = h;
        } else if (op == "sM") {
            auto h = QSharedPointer<RecFormatter>::create(hid, &log);
            ident.insert(h.data(), hid);
            sp.setFormatter(h);
            lastM = h;
        } else if (op == "aS") {
            auto h = QSharedPointer<RecSink>::create(hid, &log);
            ident.insert(h.data(), hid);
            sp.appendSink(h);
            lastS = h;
        } else if (op == "aP") {
            auto p = PipelinePtr::create();
            p->append(QSharedPointer<RecSink>::create(hid, &log));
            ident.insert(p.data(), hid);
            sp.appendPipeline(p);
            lastP = p;
        } else if (op == "rA") { // the same instance once more (shared handlers are ordinary use)
            if (lastA) sp.appendAttrHandler(lastA);
        } else if (op == "rF") {
            if (lastF) sp.appendFilter(lastF);
        } else if (op == "rM") {
            if (lastM) sp.setFormatter(lastM);
        } else if (op == "rS") {
            if (lastS) sp.appendSink(lastS);
        } else if (op == "rP") {
            if (lastP) sp.appendPipeline(lastP);
        } else if (op == "nA") {
            sp.appendAttrHandler(AttrHandlerPtr());
        } else if (op == "nF") {
            sp.appendFilter(FilterPtr());
        } else if (op == "nM") {
            sp.setFormatter(FormatterPtr());
        } else if (op == "nS") {
            sp.appendSink(SinkPtr());
        } else if (op == "nP") {
            sp.appendPipeline(PipelinePtr());
        } else if (op == "cA") {
            sp.clearAttrHandlers();
        } else if (op == "cF") {
            sp.clearFilters();
        } else if (op == "cM") {
            sp.clearFormatters();
        } else if (op == "cS") {
            sp.clearSinks();
        } else if (op == "cP") {
            sp.clearPipelines();
        } else if (op == "cc") {
            sp.clear();
        } else {
            fprintf(stderr, "bad sorted op %s\n", op.c_str());
            exit(3);
        }
        // dump the arrangement
        out << " ";
        bool first = true;
        const Pipeline &cp = sp;
        for (const auto &h : cp.handlers()) {
            if (!first) out << ",";
            first = false;
            char c = '?';
            switch (h->type()) {
            case Handler::HandlerType::AttrHandler: c = 'A'; break;
            case Handler::HandlerType::Filter: c = 'F'; break;
            case Handler::HandlerType::Formatter: c = 'M'; break;
            case Handler::HandlerType::Sink: c = 'S'; break;
            case Handler::HandlerType::Pipeline: c = 'P'; break;
            default: c = 'H'; break;
            }
            out << c << ident.value(h.data(), 0);
        }
        if (first) out << "-";
        // execution order
        log.clear();
        QMessageLogContext ctx("f.cpp", 1, "fn", "cat");
        LogMessage m(QtDebugMsg, ctx, QStringLiteral("x"));
        sp.process(m);
        out << "|";
        first = true;
        for (int v : log) {
            if (!first) out << ",";
            first = false;
            out << v;
        }
        if (first) out << "-";
    }
    std::cout << out.str() << "\n";
}

// ---------------------------------------------------------------- filter/counter sequences (C16)

struct CountSink : Sink
{
    int *hit;
    QVariant *seq;
    QString name;
    CountSink(int *h, QVariant *s, const QString &n) : hit(h), seq(s), name(n) { }
    void send(const LogMessage &m) override
    {
        ++*hit;
        *seq = m.attribute(name);
    }
};

// counters inside a tree: the message reaches a counter while it already carries an attribute of
// the counter's name (set by another counter, by the same shared instance, or by the caller)
void run_seqtree(Tok &k, const std::string &id, const std::string &param, int n)
{
    int variant = 0, level = 0, scoped = 1;
    sscanf(param.c_str(), "%d:%d:%d", &variant, &level, &scoped);
    const QString name = QStringLiteral("seq_number");
    int hitA = 0, hitB = 0;
    QVariant seqA, seqB;
    auto outer = QSharedPointer<SimplePipeline>::create();
    if (variant == 0) {
        outer->addSeqNumber();
        auto &nested = outer->pipeline();
        nested.filterLevel(kTypes[level % 5]).addSeqNumber();
        nested.append(QSharedPointer<CountSink>::create(&hitB, &seqB, name));
    } else if (variant == 1) {
        auto sharedCounter = SeqNumberAttrPtr::create(name);
        auto nested = PipelinePtr::create(scoped != 0);
        nested->append(sharedCounter);
        nested->append(QSharedPointer<CountSink>::create(&hitB, &seqB, name));
        outer->append(sharedCounter);
        outer->append(nested);
    } else {
        outer->addSeqNumber();
    }
    outer->append(QSharedPointer<CountSink>::create(&hitA, &seqA, name));
    std::ostringstream out;
    out << "R " << id;
    for (int i = 0; i < n; ++i) {
        k.num();
        QtMsgType t = kTypes[k.num() % 5];
        const std::string &ts = k.next();
        QString text = (ts == "~") ? QString() : unhexs(ts);
        QMessageLogContext ctx("f.cpp", 1, "fn", "cat");
        LogMessage m(t, ctx, text);
        if (variant == 2) m.setAttribute(name, 777 + i);
        hitA = hitB = 0;
        seqA = seqB = QVariant();
        outer->process(m);
        out << " b" << hitB;
        if (hitB && seqB.isValid()) out << ":" << seqB.toLongLong();
        out << "a" << hitA;
        if (hitA && seqA.isValid()) out << ":" << seqA.toLongLong();
    }
    std::cout << out.str() << "\n";
}

void run_sequence(Tok &k, const std::string &id)
{
    const std::string kind = k.next();
    const std::string param = k.next();
    int npipes = int(k.num());
    int n = int(k.num());
    if (kind == "seqtree") {
        run_seqtree(k, id, param, n);
        return;
    }
    HandlerPtr shared;
    QString seqName = QStringLiteral("seq_number");
    bool viaFluent = false;
    if (kind == "level") {
        shared = LevelFilterPtr::create(kTypes[atoi(param.c_str()) % 5]);
    } else if (kind == "dup") {
        shared = DuplicateFilterPtr::create();
    } else if (kind == "regexp") {
        shared = RegExpFilterPtr::create(unhexs(param));
    } else if (kind == "regexpq") {
        shared = RegExpFilterPtr::create(QRegularExpression(unhexs(param)));
    } else if (kind == "seq") {
        seqName = unhexs(param);
        shared = SeqNumberAttrPtr::create(seqName);
    } else if (kind == "seqdefault") {
        shared = SeqNumberAttrPtr::create();
    } else if (kind == "fluent-level" || kind == "fluent-dup" || kind == "fluent-regexp"
               || kind == "fluent-seq") {
        viaFluent = true;
    } else {
        fprintf(stderr, "bad seq kind\n");
        exit(3);
    }
    int hit = 0;
    QVariant seq;
    std::vector<QSharedPointer<SimplePipeline>> pipes;
    for (int p = 0; p < npipes; ++p) {
        auto sp = QSharedPointer<SimplePipeline>::create();
        if (viaFluent) {
            if (kind == "fluent-level") sp->filterLevel(kTypes[atoi(param.c_str()) % 5]);
            if (kind == "fluent-dup") sp->filterDuplicate();
            if (kind == "fluent-regexp") sp->filter(unhexs(param));
            if (kind == "fluent-seq") sp->addSeqNumber();
        } else {
            sp->append(shared);
        }
        // a dropping filter after the counter must not influence numbering
        sp->append(QSharedPointer<CountSink>::create(&hit, &seq, seqName));
        pipes.push_back(sp);
    }
    std::ostringstream out;
    out << "R " << id;
    for (int i = 0; i < n; ++i) {
        int p = int(k.num()) % npipes;
        QtMsgType t = kTypes[k.num() % 5];
        const std::string &ts = k.next();
        QString text = (ts == "~") ? QString() : unhexs(ts);
        QMessageLogContext ctx("f.cpp", 1, "fn", "cat");
        LogMessage m(t, ctx, text);
        hit = 0;
        seq = QVariant();
        pipes[size_t(p)]->process(m);
        out << " " << hit;
        if (hit && seq.isValid()) out << ":" << seq.toLongLong();
    }
    std::cout << out.str() << "\n";
}

// ---------------------------------------------------------------- category filter (C15)

void run_category(Tok &k, const std::string &id)
{
    QString rules = unhexs(k.next());
    int qt = int(k.num());
    int n = int(k.num());
    CategoryFilter cf(rules);
    if (qt) QLoggingCategory::setFilterRules(QString(rules).replace(QLatin1Char(';'), QLatin1Char('\n')));
    std::ostringstream out;
    out << "R " << id;
    for (int i = 0; i < n; ++i) {
        QByteArray cat = unhexb(k.next());
        QtMsgType t = kTypes[k.num() % 5];
        QMessageLogContext ctx("f.cpp", 1, "fn", cat.constData());
        LogMessage m(t, ctx, QStringLiteral("x"));
        bool v = cf.filter(m);
        out << " " << (v ? 1 : 0);
        if (qt) {
            QLoggingCategory lc(cat.constData());
            out << (lc.isEnabled(t) ? "y" : "n");
        }
    }
    if (qt) QLoggingCategory::setFilterRules(QString());
    std::cout << out.str() << "\n";
}

// ---------------------------------------------------------------- C01 pipeline programs
//
// Program text (tokens):  NODE := 'p' scoped(0|1) viaInit(0|1) nchildren NODE*   pipeline
//                               | 'a' k                attr handler atom k
//                               | 'f' k                filter atom k
//                               | 'm' k                formatter atom k
//                               | 's' k                recording sink k
//                               | 'h' k                generic handler atom k
//                               | 'l' k                LevelFilter(min = k%5)
//                               | 'r' idx              reference to already built shared handler idx
//                               | 'n'                  null entry (only inside viaInit pipelines)
//   shared handlers are declared first: nshared NODE*  (non-pipeline atoms or pipelines)
// Atom behaviour is a pure function of (k, per-instance call count, current message state); the
// Python reference implements the same table (ref_pipeline.py).

struct Delivery
{
    int sink;
    int msg;
    QString formatted;
    bool isFormatted;
    QString raw;
    QVariantHash attrs;
};

struct ProgState
{
    std::vector<Delivery> deliveries;
    int curMsg = 0;
};

QString attrDump(const QVariantHash &h)
{
    QStringList keys = h.keys();
    keys.sort();
    QString r;
    for (const auto &key : keys) {
        r += key + QLatin1Char('=') + h.value(key).toString() + QLatin1Char(';');
    }
    return r;
}

struct AtomAttr : AttrHandler
{
    int k;
    int calls = 0;
    explicit AtomAttr(int kk) : k(kk) { }
    QVariantHash attributes(const LogMessage &m) override
    {
        ++calls;
        QVariantHash h;
        // overlapping names on purpose: a<k%4>
        h.insert(QStringLiteral("a%1").arg(k % 4), QStringLiteral("%1:%2").arg(k).arg(calls));
        if (k % 3 == 0) {
            // value depends on what is visible right now
            h.insert(QStringLiteral("seen%1").arg(k % 2),
                     QString::number(m.attributes().size()) + (m.isFormatted() ? "F" : "R"));
        }
        return h;
    }
};

struct AtomFilter : Filter
{
    int k;
    int calls = 0;
    ProgState *st;
    AtomFilter(int kk, ProgState *s) : k(kk), st(s) { }
    bool filter(const LogMessage &m) override
    {
        ++calls;
        switch (k % 4) {
        case 0: return ((st->curMsg + k) % 3) != 0;
        case 1: return m.hasAttribute(QStringLiteral("a%1").arg((k / 4) % 4));
        case 2: return !m.formattedMessage().contains(QStringLiteral("F%1(").arg((k / 4) % 6));
        default: return (calls % 2) == 1;
        }
    }
};

struct AtomFormatter : Formatter
{
    int k;
    explicit AtomFormatter(int kk) : k(kk) { }
    QString format(const LogMessage &m) override
    {
        if (k % 7 == 6) return QString(""); // empty but non-null: still "formatted"
        return QStringLiteral("F%1(").arg(k % 6) + m.formattedMessage() + QLatin1Char(')');
    }
};

struct AtomSink : Sink
{
    int k;
    ProgState *st;
    AtomSink(int kk, ProgState *s) : k(kk), st(s) { }
    void send(const LogMessage &m) override
    {
        st->deliveries.push_back({ k, st->curMsg, m.formattedMessage(), m.isFormatted(),
                                   m.message(), m.attributes() });
    }
};

HandlerPtr makeGeneric(int k, ProgState *st)
{
    auto calls = std::make_shared<int>(0);
    return FunctionHandlerPtr::create([k, st, calls](LogMessage &m) -> bool {
        ++*calls;
        switch (k % 5) {
        case 0: m.setAttribute(QStringLiteral("g%1").arg(k % 3), *calls); return true;
        case 1: m.removeAttribute(QStringLiteral("a%1").arg((k / 5) % 4)); return true;
        case 2: m.setFormattedMessage(QStringLiteral("G%1[").arg(k % 4) + m.formattedMessage() + QLatin1Char(']'));
                return ((st->curMsg + k) % 4) != 1;
        case 3: m.setFormattedMessage(QString()); return true; // back to "unformatted"
        default: return (*calls % 3) != 0;
        }
    });
}

struct Builder
{
    ProgState *st;
    std::vector<HandlerPtr> shared;
    // fluent building keeps a cursor
    HandlerPtr atom(const std::string &c, Tok &k)
    {
        if (c == "a") return QSharedPointer<AtomAttr>::create(int(k.num()));
        if (c == "f") return QSharedPointer<AtomFilter>::create(int(k.num()), st);
        if (c == "m") return QSharedPointer<AtomFormatter>::create(int(k.num()));
        if (c == "s") return QSharedPointer<AtomSink>::create(int(k.num()), st);
        if (c == "h") return makeGeneric(int(k.num()), st);
        if (c == "l") return LevelFilterPtr::create(kTypes[k.num() % 5]);
        if (c == "r") return shared.at(size_t(k.num()));
        fprintf(stderr, "bad atom %s\n", c.c_str());
        exit(3);
    }

    HandlerPtr node(Tok &k)
    {
        const std::string c = k.next();
        if (c == "n") return HandlerPtr();
        if (c != "p") return atom(c, k);
        bool scoped = k.num() != 0;
        int via = int(k.num());
        int n = int(k.num());
        std::vector<HandlerPtr> kids;
        for (int i = 0; i < n; ++i) kids.push_back(node(k));
        PipelinePtr p;
        if (via == 1) {
            // constructor initializer list (does not filter nulls)
            if (kids.size() == 0) p = PipelinePtr::create(std::initializer_list<HandlerPtr> {}, scoped);
            else if (kids.size() == 1) p = PipelinePtr::create(std::initializer_list<HandlerPtr> { kids[0] }, scoped);
            else if (kids.size() == 2) p = PipelinePtr::create(std::initializer_list<HandlerPtr> { kids[0], kids[1] }, scoped);
            else if (kids.size() == 3) p = PipelinePtr::create(std::initializer_list<HandlerPtr> { kids[0], kids[1], kids[2] }, scoped);
            else {
                p = PipelinePtr::create(std::initializer_list<HandlerPtr> { kids[0], kids[1], kids[2] }, scoped);
                for (size_t i = 3; i < kids.size(); ++i) p->append({ kids[i] }); // init-list append
            }
        } else if (via == 2) {
            p = PipelinePtr::create(scoped);
            for (auto &h : kids) *p << h; // operator<< (filters nulls)
        } else {
            p = PipelinePtr::create(scoped);
            for (auto &h : kids) p->append(h);
        }
        return p;
    }
};

// Fluent variant: FL := 'P' nchildren ITEM*  where ITEM := atom | 'p' FL(sub, scoped by API) | 'e' (surplus end at root)
void fluentBuild(SimplePipeline &sp, Tok &k, ProgState *st, Builder &b)
{
    int n = int(k.num());
    for (int i = 0; i < n; ++i) {
        const std::string c = k.next();
        if (c == "p") {
            SimplePipeline &child = sp.pipeline();
            fluentBuild(child, k, st, b);
            SimplePipeline &back = child.end();
            if (&back != &sp) {
                fprintf(stderr, "fluent end() did not return to parent\n");
                std::cout << "E end-mismatch\n";
            }
        } else if (c == "e") {
            sp.end(); // surplus end(): only meaningful at the root, harmless elsewhere
        } else if (c == "a") {
            auto h = QSharedPointer<AtomAttr>::create(int(k.num()));
            sp.attrHandler([h](const LogMessage &m) { return h->attributes(m); });
        } else if (c == "f") {
            auto h = QSharedPointer<AtomFilter>::create(int(k.num()), st);
            sp.filter([h](const LogMessage &m) { return h->filter(m); });
        } else if (c == "m") {
            auto h = QSharedPointer<AtomFormatter>::create(int(k.num()));
            sp.format([h](const LogMessage &m) { return h->format(m); });
        } else if (c == "s") {
            sp.append(QSharedPointer<AtomSink>::create(int(k.num()), st));
        } else if (c == "h") {
            int kk = int(k.num());
            auto calls = std::make_shared<int>(0);
            HandlerPtr g = makeGeneric(kk, st);
            sp.handler([g](LogMessage &m) { return g->process(m); });
        } else if (c == "l") {
            sp.filterLevel(kTypes[k.num() % 5]);
        } else if (c == "r") {
            sp.append(b.shared.at(size_t(k.num())));
        } else {
            fprintf(stderr, "bad fluent item %s\n", c.c_str());
            exit(3);
        }
    }
}

void run_program(Tok &k, const std::string &id)
{
    ProgState st;
    Builder b { &st, {} };
    int nshared = int(k.num());
    for (int i = 0; i < nshared; ++i) b.shared.push_back(b.node(k));
    const std::string mode = k.next(); // "T" tree | "F" fluent
    HandlerPtr root;
    QSharedPointer<SimplePipeline> froot;
    if (mode == "T") {
        root = b.node(k);
    } else {
        froot = QSharedPointer<SimplePipeline>::create();
        fluentBuild(*froot, k, &st, b);
        root = froot;
    }
    int nmsg = int(k.num());
    std::ostringstream out;
    out << "R " << id;
    for (int i = 0; i < nmsg; ++i) {
        MsgSpec ms;
        ms.parse(k);
        const std::string pre = k.next(); // preformatted text or "~"
        LogMessage m = ms.make();
        if (pre != "~") m.setFormattedMessage(unhexs(pre));
        st.curMsg = i;
        bool r = root->process(m);
        out << " E" << i << ":" << (r ? 1 : 0) << ":" << (m.isFormatted() ? hexs(m.formattedMessage()) : std::string("~"))
            << ":" << hexs(attrDump(m.attributes()));
    }
    for (const auto &d : st.deliveries) {
        out << " D" << d.sink << ":" << d.msg << ":" << (d.isFormatted ? "1" : "0") << ":"
            << hexs(d.formatted) << ":" << hexs(d.raw) << ":" << hexs(attrDump(d.attrs));
    }
    std::cout << out.str() << "\n";
}

// ---------------------------------------------------------------- C01: reconfiguration at run time
// XL <id> <zscoped> <n0> (<op> <k>)*n0 <nmsg> { <msg> <pre> <nlate> (<op> <k>)*nlate }*
// root (unscoped) = [attr 3, sink 900, Z, sink 901]; Z is a SimplePipeline configured ONLY through the typed calls of
// SortedPipeline (appendAttrHandler / appendFilter / setFormatter / appendSink / clear<Class> / clear), before the first
// message and again between messages.
PipelinePtr g_lateNested; // the unscoped plain pipeline nested in Z (ops tP / uA uF uM uS), per XL case

void applyTyped(SimplePipeline &z, const std::string &op, int kk, ProgState *st)
{
    if (op == "tP") {
        if (!g_lateNested) {
            g_lateNested = PipelinePtr::create(false);
            z.appendPipeline(g_lateNested);
        }
        return;
    }
    if (op[0] == 'u') { // plain append to the nested pipeline, also at run time
        if (!g_lateNested) return;
        if (op == "uA") g_lateNested->append(QSharedPointer<AtomAttr>::create(kk));
        else if (op == "uF") g_lateNested->append(QSharedPointer<AtomFilter>::create(kk, st));
        else if (op == "uM") g_lateNested->append(QSharedPointer<AtomFormatter>::create(kk));
        else if (op == "uS") g_lateNested->append(QSharedPointer<AtomSink>::create(kk, st));
        return;
    }
    if (op == "cc" || op == "cP") g_lateNested.reset();
    if (op == "cP") {
        z.clearPipelines();
        return;
    }
    if (op == "tA") z.appendAttrHandler(QSharedPointer<AtomAttr>::create(kk));
    else if (op == "tF") z.appendFilter(QSharedPointer<AtomFilter>::create(kk, st));
    else if (op == "tM") z.setFormatter(QSharedPointer<AtomFormatter>::create(kk));
    else if (op == "tS") z.appendSink(QSharedPointer<AtomSink>::create(kk, st));
    else if (op == "cA") z.clearAttrHandlers();
    else if (op == "cF") z.clearFilters();
    else if (op == "cM") z.clearFormatters();
    else if (op == "cS") z.clearSinks();
    else if (op == "cc") z.clear();
    else {
        fprintf(stderr, "bad typed op %s\n", op.c_str());
        exit(3);
    }
}

void run_program_late(Tok &k, const std::string &id)
{
    ProgState st;
    g_lateNested.reset();
    const bool zscoped = k.num() != 0;
    auto z = QSharedPointer<SimplePipeline>::create(zscoped);
    int n0 = int(k.num());
    for (int i = 0; i < n0; ++i) {
        const std::string op = k.next();
        applyTyped(*z, op, int(k.num()), &st);
    }
    Pipeline root(false);
    root.append(QSharedPointer<AtomAttr>::create(3));
    root.append(QSharedPointer<AtomSink>::create(900, &st));
    root.append(z);
    root.append(QSharedPointer<AtomSink>::create(901, &st));
    int nmsg = int(k.num());
    std::ostringstream out;
    out << "R " << id;
    for (int i = 0; i < nmsg; ++i) {
        MsgSpec ms;
        ms.parse(k);
        const std::string pre = k.next();
        LogMessage m = ms.make();
        if (pre != "~") m.setFormattedMessage(unhexs(pre));
        st.curMsg = i;
        bool r = root.process(m);
        out << " E" << i << ":" << (r ? 1 : 0) << ":" << (m.isFormatted() ? hexs(m.formattedMessage()) : std::string("~")) << ":"
            << hexs(attrDump(m.attributes()));
        int nlate = int(k.num());
        for (int j = 0; j < nlate; ++j) {
            const std::string op = k.next();
            applyTyped(*z, op, int(k.num()), &st);
        }
    }
    for (const auto &d : st.deliveries) {
        out << " D" << d.sink << ":" << d.msg << ":" << (d.isFormatted ? "1" : "0") << ":" << hexs(d.formatted) << ":" << hexs(d.raw) << ":"
            << hexs(attrDump(d.attrs));
    }
    std::cout << out.str() << "\n";
}

// ---------------------------------------------------------------- C19B handler histories

int g_recv = -1; // who received the last probe: 0..3 foreign, 10/11 logger A/B, -2 Qt default
void foreign0(QtMsgType, const QMessageLogContext &, const QString &) { g_recv = 0; }
void foreign1(QtMsgType, const QMessageLogContext &, const QString &) { g_recv = 1; }
void foreign2(QtMsgType, const QMessageLogContext &, const QString &) { g_recv = 2; }
void foreign3(QtMsgType, const QMessageLogContext &, const QString &) { g_recv = 3; }
const QtMessageHandler kForeign[4] = { foreign0, foreign1, foreign2, foreign3 };

void run_handlers(Tok &k, const std::string &id)
{
    // Reset to a known state: the initial handler is foreign3 ("the application's own").
    Logger::restorePreviousMessageHandler();
    const int initial = int(k.num()); // 0 = Qt default (nullptr), 1 = foreign3 pre-installed
    qInstallMessageHandler(initial ? foreign3 : nullptr);
    Logger la, lb;
    la.append(FunctionHandlerPtr::create([](LogMessage &) { g_recv = 10; return true; }));
    lb.append(FunctionHandlerPtr::create([](LogMessage &) { g_recv = 11; return true; }));
    int n = int(k.num());
    std::ostringstream out;
    out << "R " << id;
    for (int i = 0; i < n; ++i) {
        const std::string op = k.next();
        if (op == "iA") la.installMessageHandler();
        else if (op == "iB") lb.installMessageHandler();
        else if (op == "f0") qInstallMessageHandler(foreign0);
        else if (op == "f1") qInstallMessageHandler(foreign1);
        else if (op == "f2") qInstallMessageHandler(foreign2);
        else if (op == "fd") qInstallMessageHandler(nullptr); // application resets to Qt's default
        else if (op == "rs") Logger::restorePreviousMessageHandler();
        else { fprintf(stderr, "bad handler op\n"); exit(3); }
        // identity of the active handler: swap in and out
        QtMessageHandler cur = qInstallMessageHandler(foreign3);
        qInstallMessageHandler(cur);
        // Qt returns its default handler pointer when none is installed; classify by probing
        std::string who;
        if (cur == foreign0) who = "f0";
        else if (cur == foreign1) who = "f1";
        else if (cur == foreign2) who = "f2";
        else if (cur == foreign3) who = "f3";
        else if (cur == Logger::messageHandler) {
            g_recv = -1;
            QMessageLogContext ctx("f.cpp", 1, "fn", "default");
            cur(QtDebugMsg, ctx, QStringLiteral("probe"));
            who = g_recv == 10 ? "LA" : g_recv == 11 ? "LB" : "L?";
        } else who = "qt";
        out << " " << who;
    }
    // leave the process-wide state clean for the next case
    Logger::restorePreviousMessageHandler();
    qInstallMessageHandler(nullptr);
    std::cout << out.str() << "\n";
}

} // namespace

int main(int argc, char **argv)
{
    if (argc < 2) {
        fprintf(stderr, "usage: drv_fmt <casefile>\n");
        return 3;
    }
    std::ifstream in(argv[1]);
    if (!in) {
        fprintf(stderr, "cannot open %s\n", argv[1]);
        return 3;
    }
    if (getenv("VERIF_FLUSH")) std::cout << std::unitbuf;
    if (const char *lag = getenv("VERIF_LAG_MS")) g_lagMs = atoll(lag);
    if (const char *up = getenv("VERIF_UPTIME_DAYS")) g_uptimeOffsetNs = atoll(up) * 86400LL * 1000000000LL;
    std::string line;
    while (std::getline(in, line)) {
        if (line.empty() || line[0] == '#') continue;
        Tok k;
        {
            std::istringstream is(line);
            std::string w;
            while (is >> w) k.t.push_back(w);
        }
        if (k.t.empty()) continue;
        const std::string cmd = k.next();
        const std::string id = k.next();
        if (cmd == "P") {
            QString pattern = unhexs(k.next());
            PatternFormatter pf(pattern);
            int n = int(k.num());
            std::ostringstream out;
            out << "R " << id;
            for (int i = 0; i < n; ++i) {
                MsgSpec ms;
                ms.parse(k);
                LogMessage m = ms.make();
                out << " " << hexs(pf.format(m)) << " " << stamp(m);
            }
            std::cout << out.str() << "\n";
        } else if (cmd == "PF") {
            // the pattern installed the way applications do it: through the fluent SimplePipeline::format(pattern)
            QString pattern = unhexs(k.next());
            int n = int(k.num());
            SimplePipeline sp;
            QString captured;
            sp.format(pattern);
            sp.handler([&captured](LogMessage &lm) {
                captured = lm.formattedMessage();
                return true;
            });
            std::ostringstream out;
            out << "R " << id;
            for (int i = 0; i < n; ++i) {
                MsgSpec ms;
                ms.parse(k);
                LogMessage m = ms.make();
                captured = QString();
                sp.process(m);
                out << " " << hexs(captured) << " " << stamp(m);
            }
            std::cout << out.str() << "\n";
        } else if (cmd == "J") {
            bool compact = k.num() != 0;
            MsgSpec ms;
            ms.parse(k);
            LogMessage m = ms.make();
            JsonFormatter jf(compact);
            std::cout << "R " << id << " " << hexs(jf.format(m)) << " " << stamp(m) << "\n";
        } else if (cmd == "J2") {
            // the formatter obtained the way applications obtain it: 0 = constructed directly, 1 = through the fluent
            // SimplePipeline::formatToJson(compact) (several pipelines live in one process), 2 = the shared default instance
            bool compact = k.num() != 0;
            int how = int(k.num());
            MsgSpec ms;
            ms.parse(k);
            LogMessage m = ms.make();
            QString outText;
            if (how == 1) {
                SimplePipeline sp;
                sp.formatToJson(compact);
                sp.handler([&outText](LogMessage &lm) {
                    outText = lm.formattedMessage();
                    return true;
                });
                sp.process(m);
            } else if (how == 2) {
                outText = JsonFormatter::instance()->format(m);
            } else if (how == 3) {
                // one long-lived formatter per mode formats every such record of this process (state carried between records)
                static JsonFormatter longLived[2] = { JsonFormatter(false), JsonFormatter(true) };
                outText = longLived[compact ? 1 : 0].format(m);
            } else {
                JsonFormatter jf(compact);
                outText = jf.format(m);
            }
            std::cout << "R " << id << " " << hexs(outText) << " " << stamp(m) << "\n";
        } else if (cmd == "J3") {
            // one message formatted twice: inside a scoped sub-pipeline that changes its attributes, and again after the scope has put the
            // original attributes back -> two records, "R id <inner> <outer> stamp"
            bool compact = k.num() != 0;
            QString addName = unhexs(k.next());
            QVariant addValue = parseValue(k);
            MsgSpec ms;
            ms.parse(k);
            LogMessage m = ms.make();
            QString inner, outer;
            SimplePipeline sp;
            auto &scoped = sp.pipeline();
            scoped.attrHandler([addName, addValue](const LogMessage &) { return QVariantHash { { addName, addValue } }; });
            scoped.formatToJson(compact);
            scoped.handler([&inner](LogMessage &lm) {
                inner = lm.formattedMessage();
                return true;
            });
            scoped.end();
            sp.formatToJson(compact);
            sp.handler([&outer](LogMessage &lm) {
                outer = lm.formattedMessage();
                return true;
            });
            sp.process(m);
            std::cout << "R " << id << " " << hexs(inner) << " " << hexs(outer) << " " << stamp(m) << "\n";
        } else if (cmd == "Y") {
            QString sdkn = unhexs(k.next());
            QString sdkv = unhexs(k.next());
            MsgSpec ms;
            ms.parse(k);
            LogMessage m = ms.make();
            // formatters are long-lived objects in applications: one instance per (sdk name, version) serves all events of the process
            static std::map<std::pair<QString, QString>, std::unique_ptr<SentryFormatter>> cache;
            auto &slot = cache[std::make_pair(sdkn, sdkv)];
            if (!slot) slot.reset(new SentryFormatter(sdkn, sdkv));
            std::cout << "R " << id << " " << hexs(slot->format(m)) << " " << stamp(m) << "\n";
        } else if (cmd == "T") {
            bool colorize = k.num() != 0;
            int width = int(k.num());
            int n = int(k.num());
            PrettyFormatter pf(colorize, width);
            std::ostringstream out;
            out << "R " << id;
            for (int i = 0; i < n; ++i) {
                MsgSpec ms;
                ms.parse(k);
                LogMessage m = ms.make();
                out << " " << hexs(pf.format(m)) << " " << stamp(m);
            }
            std::cout << out.str() << "\n";
        } else if (cmd == "TT") {
            // messages from N distinct threads formatted by one PrettyFormatter in a scripted order
            bool colorize = k.num() != 0;
            int width = int(k.num());
            int nthreads = int(k.num());
            int ncat = int(k.num());
            std::vector<QByteArray> cats;
            for (int i = 0; i < ncat; ++i) cats.push_back(unhexb(k.next()));
            int norder = int(k.num());
            std::vector<std::unique_ptr<LogMessage>> msgs(static_cast<size_t>(nthreads));
            {
                std::vector<std::thread> th;
                for (int t = 0; t < nthreads; ++t)
                    th.emplace_back([&, t]() {
                        QMessageLogContext ctx("f.cpp", t, "fn", cats[size_t(t) % cats.size()].constData());
                        msgs[size_t(t)].reset(new LogMessage(kTypes[t % 4], ctx, QStringLiteral("text-of-t%1").arg(t)));
                    });
                for (auto &t : th) t.join();
            }
            PrettyFormatter pf(colorize, width);
            std::ostringstream out;
            out << "R " << id;
            for (int i = 0; i < norder; ++i) {
                int t = int(k.num()) % nthreads;
                out << " " << hexs(pf.format(*msgs[size_t(t)]));
            }
            std::cout << out.str() << "\n";
        } else if (cmd == "FP") {
            // which file does a FileSink create for a path template? (digits normalised; the name must not depend on the build variant)
            QTemporaryDir dir;
            QString tmpl = unhexs(k.next());
            {
                FileSink fs(dir.path() + QLatin1Char('/') + tmpl);
            }
            QStringList names = QDir(dir.path()).entryList(QDir::Files | QDir::NoDotAndDotDot, QDir::Name);
            QString joined = names.join(QLatin1Char('|'));
            for (int i = 0; i < joined.size(); ++i)
                if (joined.at(i).isDigit()) joined[i] = QLatin1Char('N');
            std::cout << "R " << id << " " << hexs(joined) << "\n";
        } else if (cmd == "C") {
            run_category(k, id);
        } else if (cmd == "Q") {
            run_sequence(k, id);
        } else if (cmd == "O") {
            run_sorted(k, id);
        } else if (cmd == "X") {
            run_program(k, id);
        } else if (cmd == "XL") {
            run_program_late(k, id);
        } else if (cmd == "H") {
            run_handlers(k, id);
        } else {
            fprintf(stderr, "drv_fmt: unknown command %s\n", cmd.c_str());
            return 3;
        }
    }
    std::cout << "END\n";
    return 0;
}
