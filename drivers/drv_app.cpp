// drv_app — child application for process-level scenarios.  No oracle logic: it performs the
// scripted scenario against the real library and reports events (append-only event file, one
// write(2) per line so that the record survives any kind of process end).
//
//   drv_app fatal    <evfile> <cfg> <dir> <n> <size> <nthreads> <fatalthread> <L> <N> <opts> <withapp>
//   drv_app shutdown <evfile> <path> <backlog> <delay_us> <racers> <post> <cfg> <cycles> <dir>
//
// Event lines: "<kind> <ticket> <id>\n" with a process-wide atomic ticket clock.
#include <atomic>
#include <chrono>
#include <cstdio>
#include <cstdlib>
#include <cstring>
#include <fcntl.h>
#include <string>
#include <sys/resource.h>
#include <thread>
#include <unistd.h>
#include <vector>

#include <QtCore>

#include "qtlogger/qtlogger.h"
#include "hooks_impl.h"

using namespace QtLogger;

namespace {

int g_evfd = -1;
std::atomic<long long> g_ticket { 0 };

void ev(char kind, long long id)
{
    char buf[64];
    long long t = g_ticket.fetch_add(1) + 1;
    int n = snprintf(buf, sizeof buf, "%c %lld %lld\n", kind, t, id);
    ssize_t r = write(g_evfd, buf, size_t(n));
    (void)r;
}
void evs(const char *text)
{
    char buf[256];
    long long t = g_ticket.fetch_add(1) + 1;
    int n = snprintf(buf, sizeof buf, "# %lld %s\n", t, text);
    ssize_t r = write(g_evfd, buf, size_t(n));
    (void)r;
}

void spinUs(long us)
{
    if (us <= 0) return;
    if (us >= 1000) {
        std::this_thread::sleep_for(std::chrono::microseconds(us));
        return;
    }
    auto end = std::chrono::steady_clock::now() + std::chrono::microseconds(us);
    while (std::chrono::steady_clock::now() < end) { }
}

long long idOf(const QString &text)
{
    int p = text.indexOf(QLatin1String("id="));
    if (p < 0) return -1;
    int e = p + 3;
    while (e < text.size() && text.at(e).isDigit()) ++e;
    return text.mid(p + 3, e - p - 3).toLongLong();
}

class RecSink : public Sink
{
public:
    explicit RecSink(long delayUs) : m_delay(delayUs) { }
    void send(const LogMessage &lmsg) override
    {
        spinUs(m_delay);
        ev('D', idOf(lmsg.message()));
    }

private:
    long m_delay;
};

QString pad(const QString &head, int size)
{
    QString s = head;
    if (s.size() < size) s += QString(size - s.size(), QLatin1Char('x'));
    return s;
}

// ------------------------------------------------------------------------------------- fatal
int runFatal(int argc, char **argv)
{
    if (argc < 13) return 3;
    const std::string cfg = argv[3];
    const QString dir = QString::fromLocal8Bit(argv[4]);
    const int n = atoi(argv[5]), size = atoi(argv[6]), nthreads = atoi(argv[7]), fatalThread = atoi(argv[8]);
    const int L = atoi(argv[9]), N = atoi(argv[10]), opts = atoi(argv[11]), withApp = atoi(argv[12]);
    const long idBase = argc > 13 ? atol(argv[13]) : 0; // a crash loop: the same program again over the same directory
    QCoreApplication *app = withApp ? new QCoreApplication(argc, argv) : nullptr;
    (void)app;
    const QString path = dir + QStringLiteral("/app.log");
    const auto options = RotatingFileSink::Options(opts);

    if (cfg == "oneline") {
        gQtLogger.configure(path, L, N, options, false);
    } else if (cfg == "fluent") {
        gQtLogger.format(QStringLiteral("%{message}")).sendToFile(path);
        gQtLogger.installMessageHandler();
    } else if (cfg == "fluentrot") {
        gQtLogger.format(QStringLiteral("%{type} %{message}")).sendToFile(path, L, N, options);
        gQtLogger.installMessageHandler();
    } else if (cfg == "nested" || cfg == "nestedcat") {
        // two sub-pipelines, each with its own file sink; the second file only takes warnings and
        // above (nested) / the first refuses the category the fatal message is sent with (nestedcat)
        auto &p1 = gQtLogger.pipeline();
        if (cfg == "nestedcat") p1.filterCategory(QStringLiteral("deadly=false"));
        p1.format(QStringLiteral("%{message}")).sendToFile(path, L, N, options).end();
        gQtLogger.pipeline()
                .filterLevel(QtWarningMsg)
                .format(QStringLiteral("%{type}|%{message}"))
                .sendToFile(dir + QStringLiteral("/warn.log"))
                .end();
        gQtLogger.installMessageHandler();
    } else if (cfg == "nestedfirst") {
        // a nested pipeline with its own file first, then a formatter and a file sink on the outer level
        gQtLogger.pipeline()
                .filterLevel(QtWarningMsg)
                .format(QStringLiteral("%{type}|%{message}"))
                .sendToFile(dir + QStringLiteral("/warn.log"))
                .end()
                .format(QStringLiteral("%{message}"))
                .sendToFile(path, L, N, options);
        gQtLogger.installMessageHandler();
    } else if (cfg == "badfirst") {
        // the first file sink cannot open its file (directory does not exist); the second one is healthy
        gQtLogger.format(QStringLiteral("%{message}"))
                .sendToFile(dir + QStringLiteral("/no-such-dir/first.log"))
                .sendToStdErr()
                .sendToFile(path, L, N, options);
        gQtLogger.installMessageHandler();
    } else if (cfg == "lateappend") {
        // the pipeline is extended while it is in use: banners have been logged and flushed before the last two file sinks are attached -
        // one inside a nested pipeline that existed (empty) from the start, one through the typed insertion call of the sorted pipeline
        gQtLogger.format(QStringLiteral("%{message}"));
        auto &np = gQtLogger.pipeline();
        gQtLogger.installMessageHandler();
        qInfo("banner: logging started");
        gQtLogger.flush();
        gQtLogger.sendToFile(path, L, N, options);
        qInfo("banner: app.log attached");
        gQtLogger.flush();
        np.filterLevel(QtWarningMsg).format(QStringLiteral("%{type}|%{message}")).sendToFile(dir + QStringLiteral("/warn.log")).end();
        gQtLogger.appendSink(FileSinkPtr::create(dir + QStringLiteral("/late.log")));
    } else if (cfg.rfind("wide", 0) == 0) {
        // many sibling sub-pipelines, one file each (a file per module); the last sibling holds warn.log, the outer level app.log
        const int k = atoi(cfg.c_str() + 4);
        for (int i = 0; i < k - 1; ++i) {
            gQtLogger.pipeline()
                    .filterLevel(QtCriticalMsg)
                    .format(QStringLiteral("%{message}"))
                    .sendToFile(dir + QStringLiteral("/mod%1.log").arg(i))
                    .end();
        }
        gQtLogger.pipeline()
                .filterLevel(QtWarningMsg)
                .format(QStringLiteral("%{type}|%{message}"))
                .sendToFile(dir + QStringLiteral("/warn.log"))
                .end()
                .format(QStringLiteral("%{message}"))
                .sendToFile(path, L, N, options);
        gQtLogger.installMessageHandler();
    } else if (cfg == "ini") {
        const QString ini = dir + QStringLiteral("/../cfg.ini");
        {
            QSettings s(ini, QSettings::IniFormat);
            s.setValue(QStringLiteral("logger/message_pattern"), QStringLiteral("%{message}"));
            s.setValue(QStringLiteral("logger/platform_std_log"), false);
            s.setValue(QStringLiteral("logger/path"), path);
            s.setValue(QStringLiteral("logger/max_file_size"), L);
            s.setValue(QStringLiteral("logger/max_file_count"), N);
            s.setValue(QStringLiteral("logger/rotate_on_startup"), bool(opts & 1));
            s.setValue(QStringLiteral("logger/rotate_daily"), bool(opts & 2));
            s.setValue(QStringLiteral("logger/compress_old_files"), bool(opts & 4));
            s.setValue(QStringLiteral("logger/async"), false);
            s.sync();
        }
        gQtLogger.configureFromIniFile(ini);
    } else {
        return 3;
    }

    // predecessors: thread 0 = main; share i % (nthreads+1)
    const int T = nthreads + 1;
    std::atomic<int> done { 0 };
    auto logShare = [&](int t) {
        for (int i = t; i < n; i += T) {
            const QString text = pad(QStringLiteral("id=%1;").arg(idBase + i), size);
            if (i % 3 == 1)
                qWarning("%s", qUtf8Printable(text));
            else
                qInfo("%s", qUtf8Printable(text));
            ev('A', i);
        }
        done.fetch_add(1);
    };
    auto raise = [&]() {
        while (done.load() < T) std::this_thread::yield();
        evs("fatal-begin");
        if (cfg == "nestedcat") {
            QMessageLogger("f.cpp", 1, "fn", "deadly").fatal("id=%ld; FATAL-END", idBase + n);
        } else {
            qFatal("id=%ld; FATAL-END", idBase + n);
        }
    };
    std::vector<std::thread> th;
    for (int t = 1; t < T; ++t) {
        th.emplace_back([&, t]() {
            logShare(t);
            if (t == fatalThread) raise();
            // keep the thread alive: the process dies with every thread running
            while (true) std::this_thread::sleep_for(std::chrono::milliseconds(50));
        });
    }
    logShare(0);
    if (fatalThread == 0) raise();
    while (true) std::this_thread::sleep_for(std::chrono::milliseconds(50));
    return 0;
}

// ---------------------------------------------------------------------------------- shutdown
std::atomic<bool> g_stopRacers { false };
std::atomic<int> g_prodCounter { 0 };
// ids carry the producer: id = producer * 10^9 + per-producer sequence number
long long nextId()
{
    thread_local int prod = g_prodCounter.fetch_add(1);
    thread_local long long seq = 0;
    return (long long)prod * 1000000000LL + seq++;
}
long g_racerPauseUs = 0;        // VERIF_RACER_PAUSE_US: pause between two messages of a racing producer
long g_racerBudget = 2000000000; // VERIF_RACER_BUDGET: messages a racing producer sends at most

void logOne(long long id)
{
    ev('C', id);
    if (id % 4 == 0)
        qDebug("id=%lld", id);
    else if (id % 4 == 1)
        qInfo("id=%lld", id);
    else if (id % 4 == 2)
        qWarning("id=%lld", id);
    else
        qCritical("id=%lld", id);
    ev('A', id);
}

template<typename H>
void processOne(H &h, long long id)
{
    ev('C', id);
    QMessageLogContext ctx("f.cpp", 1, "fn", "direct");
    LogMessage m(QtInfoMsg, ctx, QStringLiteral("id=%1").arg(id));
    h.process(m);
    ev('A', id);
}

int runShutdown(int argc, char **argv)
{
    if (argc < 11) return 3;
    const std::string path = argv[3];
    const long backlog = atol(argv[4]);
    const long delayUs = atol(argv[5]);
    const int racers = atoi(argv[6]);
    const int post = atoi(argv[7]);
    const std::string cfg = argv[8];
    const int cycles = atoi(argv[9]);
    const QString dir = QString::fromLocal8Bit(argv[10]);
    vhook::configureFromString(getenv("VERIF_NOISE"));
    if (const char *e = getenv("VERIF_RACER_PAUSE_US")) g_racerPauseUs = atol(e);
    if (const char *e = getenv("VERIF_RACER_BUDGET")) g_racerBudget = atol(e);

    auto sink = QSharedPointer<RecSink>::create(delayUs);

    auto setupSingleton = [&](bool connectBrackets) {
        // first bracket: connected BEFORE the logger's own aboutToQuit connection
        if (connectBrackets && qApp)
            QObject::connect(qApp, &QCoreApplication::aboutToQuit, qApp, []() { ev('S', 0); }, Qt::DirectConnection);
        if (cfg == "fluent") {
            gQtLogger.moveToOwnThread();
            gQtLogger << sink;
            gQtLogger.installMessageHandler();
        } else if (cfg == "pattern" || cfg == "json") {
            // formatters whose helpers keep function-local static tables
            if (cfg == "pattern")
                gQtLogger.format(QStringLiteral("%{time} %{type:>8} %{category} %{message}"));
            else
                gQtLogger.formatToJson(true);
            gQtLogger.sendToFile(dir + QStringLiteral("/app.log"));
            gQtLogger.moveToOwnThread();
            gQtLogger << sink;
            gQtLogger.installMessageHandler();
        } else if (cfg == "oneline") {
            // async is configure()'s default
            gQtLogger.configure(dir + QStringLiteral("/app.log"), 4096, 3);
            gQtLogger << sink;
        } else if (cfg == "ini") {
            const QString ini = dir + QStringLiteral("/cfg.ini");
            {
                QSettings s(ini, QSettings::IniFormat);
                s.setValue(QStringLiteral("logger/message_pattern"), QStringLiteral("%{message}"));
                s.setValue(QStringLiteral("logger/platform_std_log"), false);
                s.setValue(QStringLiteral("logger/path"), dir + QStringLiteral("/app.log"));
                s.setValue(QStringLiteral("logger/async"), true);
                s.sync();
            }
            gQtLogger.configureFromIniFile(ini);
            gQtLogger << sink;
        }
        if (connectBrackets && qApp)
            QObject::connect(qApp, &QCoreApplication::aboutToQuit, qApp, []() { ev('E', 0); }, Qt::DirectConnection);
    };

    std::vector<std::thread> racerThreads;
    auto startRacers = [&]() {
        for (int r = 0; r < racers; ++r)
            racerThreads.emplace_back([r]() {
                long left = g_racerBudget;
                while (!g_stopRacers.load()) {
                    if (left-- <= 0) {
                        ev('X', r); // budget exhausted: this producer stops on its own
                        break;
                    }
                    logOne(nextId());
                    if (g_racerPauseUs > 0)
                        spinUs(g_racerPauseUs);
                    else if ((left & 7) == 0)
                        std::this_thread::yield();
                }
            });
    };
    auto stopRacers = [&]() {
        g_stopRacers = true;
        for (auto &t : racerThreads) t.join();
        racerThreads.clear();
    };
    auto fill = [&]() {
        for (long i = 0; i < backlog; ++i) logOne(nextId());
    };
    auto postStop = [&]() {
        for (int i = 0; i < post; ++i) logOne(nextId());
    };

    if (path == "P1") { // exec() + quit() -> aboutToQuit
        QCoreApplication app(argc, argv);
        setupSingleton(true);
        startRacers();
        QTimer::singleShot(0, &app, [&]() {
            fill();
            app.quit();
        });
        app.exec();
        evs("exec-returned");
        postStop();
        stopRacers();
        postStop();
        evs("main-return");
        return 0;
    }
    if (path == "P2") { // explicit reset with the application alive
        QCoreApplication app(argc, argv);
        setupSingleton(false);
        for (int c = 0; c < (cycles > 0 ? cycles : 1); ++c) {
            if (c > 0) {
                ev('M', c);
                gQtLogger.moveToOwnThread();
            }
            if (c == 0) startRacers();
            fill();
            ev('S', c);
            gQtLogger.resetOwnThread();
            ev('E', c);
            postStop();
        }
        stopRacers();
        postStop();
        evs("main-return");
        return 0;
    }
    if (path == "P3") { // return from main without exec(): application destroyed before the singleton
        {
            QCoreApplication app(argc, argv);
            setupSingleton(false);
            startRacers();
            fill();
            stopRacers();
        }
        evs("main-return");
        return 0;
    }
    if (path == "P3C") { // like P3, but the logger has already been through a move/reset cycle (and is moved again) before the exit
        {
            QCoreApplication app(argc, argv);
            setupSingleton(false);
            startRacers();
            for (int c = 0; c < (cycles > 0 ? cycles : 1); ++c) {
                fill();
                ev('S', c);
                gQtLogger.resetOwnThread();
                ev('E', c);
                ev('M', c + 1);
                gQtLogger.moveToOwnThread();
            }
            fill();
            stopRacers();
        }
        evs("main-return");
        return 0;
    }
    if (path == "P3T") { // two applications one after the other in one process, none of them ever runs an event loop
        for (int round = 0; round < 2; ++round) {
            QCoreApplication app(argc, argv);
            if (round == 0) {
                setupSingleton(false);
            } else {
                ev('M', round);
                gQtLogger.moveToOwnThread();
            }
            fill();
            // ~QCoreApplication must stop the own thread and drain the backlog
        }
        evs("main-return");
        return 0;
    }
    if (path == "P3O") { // another handler of the same kind was stopped earlier; this one is still running at the exit
        {
            QCoreApplication app(argc, argv);
            auto first = new OwnThreadHandler<SimplePipeline>();
            *first << sink;
            first->moveToOwnThread();
            first->resetOwnThread();
            setupSingleton(false);
            fill();
            delete first;
        }
        evs("main-return");
        return 0;
    }
    if (path == "P4") { // exit() inside main, application object alive on the stack
        QCoreApplication app(argc, argv);
        setupSingleton(false);
        startRacers();
        fill();
        stopRacers();
        evs("main-return");
        exit(0);
    }
    if (path == "P5") { // heap application, never deleted
        auto *app = new QCoreApplication(argc, argv);
        (void)app;
        setupSingleton(false);
        startRacers();
        fill();
        stopRacers();
        evs("main-return");
        return 0;
    }
    if (path == "P6") { // non-singleton own-thread pipeline destroyed by scope exit, with backlog
        QCoreApplication app(argc, argv);
        for (int c = 0; c < (cycles > 0 ? cycles : 1); ++c) {
            auto h = new OwnThreadHandler<SimplePipeline>();
            *h << sink;
            h->moveToOwnThread();
            std::atomic<bool> stop { false };
            std::vector<std::thread> ts;
            // racers stop before destruction (using an object during its destruction is the
            // caller's error, not a path of the property)
            for (int r = 0; r < racers; ++r)
                ts.emplace_back([&]() {
                    long left = g_racerBudget;
                    while (!stop.load() && left-- > 0) {
                        processOne(*h, nextId());
                        spinUs(g_racerPauseUs);
                    }
                });
            for (long i = 0; i < backlog; ++i) processOne(*h, nextId());
            stop = true;
            for (auto &t : ts) t.join();
            ev('S', c);
            delete h;
            ev('E', c);
        }
        evs("main-return");
        return 0;
    }
    if (path == "P6L") { // non-singleton Logger installed as the message handler, destroyed with backlog
        QCoreApplication app(argc, argv);
        {
            Logger lg;
            lg.moveToOwnThread();
            lg << sink;
            lg.installMessageHandler();
            startRacers();
            fill();
            stopRacers();
            ev('S', 0);
        }
        ev('E', 0);
        evs("main-return");
        return 0;
    }
    if (path == "P9") { // two threads stop the same logger at the same time (e.g. explicit reset racing a destructor / quit)
        QCoreApplication app(argc, argv);
        setupSingleton(false);
        for (int c = 0; c < (cycles > 0 ? cycles : 1); ++c) {
            if (c > 0) {
                ev('M', c);
                gQtLogger.moveToOwnThread();
            }
            if (c == 0) startRacers();
            fill();
            std::atomic<int> go { 0 };
            std::thread other([&]() {
                go.fetch_add(1);
                while (go.load() < 2) { }
                ev('S', 2 * c + 1);
                gQtLogger.resetOwnThread();
                ev('E', 2 * c + 1);
            });
            go.fetch_add(1);
            while (go.load() < 2) { }
            ev('S', 2 * c);
            gQtLogger.resetOwnThread();
            ev('E', 2 * c);
            other.join();
            postStop();
        }
        stopRacers();
        evs("main-return");
        return 0;
    }
    if (path == "P8") { // move/reset cycles with producers running throughout
        QCoreApplication app(argc, argv);
        gQtLogger << sink;
        gQtLogger.installMessageHandler();
        startRacers();
        for (int c = 0; c < cycles; ++c) {
            ev('M', c);
            gQtLogger.moveToOwnThread();
            fill();
            ev('S', c);
            gQtLogger.resetOwnThread();
            ev('E', c);
            postStop();
        }
        stopRacers();
        evs("main-return");
        return 0;
    }
    return 3;
}

// ------------------------------------------------------------------------------------ config
// drv_app config <evfile> <specfile> <dir>: applies a configuration front-end as the spec says, then emits the spec's message
// stream through Qt's logging front door (the expansion of qCDebug(cat) ... qCCritical(cat)).
QString unhexs16(const std::string &h)
{
    if (h == "-" || h.empty()) return QString("");
    auto hv = [](char c) { return c >= 'a' ? c - 'a' + 10 : c - '0'; };
    QVector<QChar> u;
    for (size_t k = 0; k + 3 < h.size(); k += 4)
        u.append(QChar(ushort((hv(h[k]) * 16 + hv(h[k + 1])) | ((hv(h[k + 2]) * 16 + hv(h[k + 3])) << 8))));
    return QString(u.constData(), u.size());
}

int runConfig(int argc, char **argv)
{
    if (argc < 5) return 3;
    const QString dir = QString::fromLocal8Bit(argv[4]);
    QFile spec(QString::fromLocal8Bit(argv[3]));
    if (!spec.open(QIODevice::ReadOnly)) return 3;
    QCoreApplication app(argc, argv);
    const QString ini = dir + QStringLiteral("/cfg.ini");
    QString mode;
    struct Msg
    {
        int type;
        QByteArray cat;
        QString text;
    };
    QList<Msg> msgs;
    bool onelineSeen = false;
    QString olPath;
    int olSize = 0, olCount = 0, olOpts = 0, olAsync = 1;
    {
        QSettings st(ini, QSettings::IniFormat);
        while (!spec.atEnd()) {
            const QList<QByteArray> t = spec.readLine().trimmed().split(' ');
            if (t.isEmpty() || t[0].isEmpty()) continue;
            if (t[0] == "MODE") {
                mode = QString::fromLatin1(t[1]);
            } else if (t[0] == "SET") {
                const QString key = QStringLiteral("logger/") + QString::fromLatin1(t[1]);
                if (t[2] == "b")
                    st.setValue(key, t[3] == "1");
                else if (t[2] == "i")
                    st.setValue(key, t[3].toInt());
                else
                    st.setValue(key, unhexs16(t[3].toStdString()));
            } else if (t[0] == "ONELINE") {
                onelineSeen = true;
                olPath = unhexs16(t[1].toStdString());
                olSize = t[2].toInt();
                olCount = t[3].toInt();
                olOpts = t[4].toInt();
                olAsync = t[5].toInt();
            } else if (t[0] == "MSG") {
                msgs.append({ t[1].toInt(), t[2] == "~" ? QByteArray("default") : unhexs16(t[2].toStdString()).toLatin1(),
                              unhexs16(t[3].toStdString()) });
            }
        }
        st.sync();
    }
    if (mode == QLatin1String("ini")) {
        gQtLogger.configureFromIniFile(ini);
    } else if (mode == QLatin1String("settings")) {
        QSettings st(ini, QSettings::IniFormat);
        gQtLogger.configure(st);
    } else if (mode == QLatin1String("oneline") && onelineSeen) {
        gQtLogger.configure(olPath, olSize, olCount, RotatingFileSink::Options(olOpts), olAsync != 0);
    } else if (mode == QLatin1String("onelinedefault")) {
        gQtLogger.configure();
    } else {
        return 3;
    }
    QTimer::singleShot(0, &app, [&]() {
        int line = 0;
        for (const Msg &m : msgs) {
            ++line;
            QLoggingCategory lc(m.cat.constData());
            const QtMsgType type = m.type == 0 ? QtDebugMsg : m.type == 1 ? QtInfoMsg : m.type == 2 ? QtWarningMsg
                                                                                               : m.type == 4 ? QtFatalMsg : QtCriticalMsg;
            if (type != QtFatalMsg && !lc.isEnabled(type)) {
                ev('Q', line); // Qt's own category rules would have swallowed it: the harness runs with none
                continue;
            }
            QMessageLogger ml("src/app/main.cpp", line, "int app::run(int)", lc.categoryName());
            const QByteArray text = m.text.toUtf8();
            switch (type) {
            case QtDebugMsg: ml.debug("%s", text.constData()); break;
            case QtInfoMsg: ml.info("%s", text.constData()); break;
            case QtWarningMsg: ml.warning("%s", text.constData()); break;
            case QtFatalMsg: ml.fatal("%s", text.constData()); break; // aborts the process
            default: ml.critical("%s", text.constData()); break;
            }
            ev('A', line);
        }
        app.quit();
    });
    app.exec();
    evs("exec-returned");
    return 0;
}

} // namespace

int main(int argc, char **argv)
{
    if (argc < 3) {
        fprintf(stderr, "usage: drv_app <mode> <evfile> ...\n");
        return 3;
    }
    rlimit rl { 0, 0 };
    setrlimit(RLIMIT_CORE, &rl);
    g_evfd = open(argv[2], O_WRONLY | O_CREAT | O_APPEND, 0644);
    if (g_evfd < 0) return 3;
    const std::string mode = argv[1];
    int rc = 3;
    if (mode == "fatal") rc = runFatal(argc, argv);
    if (mode == "shutdown") rc = runShutdown(argc, argv);
    if (mode == "config") rc = runConfig(argc, argv);
    char buf[96];
    int n = snprintf(buf, sizeof buf, "# %lld hooks total=%llu noise=%llu sync=%llu wait=%llu\n", (long long)g_ticket.load(),
                     (unsigned long long)vhook::totalPoints(), (unsigned long long)vhook::noiseApplied(),
                     (unsigned long long)vhook::count("oth.sync"), (unsigned long long)vhook::count("oth.reset.wait"));
    ssize_t r = write(g_evfd, buf, size_t(n));
    (void)r;
    return rc;
}
