// Header-only probe for C20: includes NOTHING but the top-level amalgamated header (so the header must bring every include it needs
// itself) and touches each part of the library once.  Built once per documented configuration macro set.
#include "qtlogger.h"

int main(int argc, char **argv)
{
    using namespace QtLogger;
    QString dir = argc > 1 ? QString::fromLocal8Bit(argv[1]) : QStringLiteral(".");
    QMessageLogContext ctx("src/a.cpp", 7, "void ns::f(int)", "probe.cat");
    LogMessage m(QtWarningMsg, ctx, QStringLiteral("hello"));
    m.setAttribute(QStringLiteral("user"), QStringLiteral("u"));
    QString out;
    out += PatternFormatter(QStringLiteral("%{type}|%{category}|%{func}|%{message}|%{user?}")).format(m) + QLatin1Char('\n');
    out += QString::number(JsonFormatter(true).format(m).contains(QStringLiteral("\"message\":\"hello\""))) + QLatin1Char('\n');
    out += QString::number(SentryFormatter().format(m).contains(QStringLiteral("\"level\":\"warning\""))) + QLatin1Char('\n');
    out += QString::number(PrettyFormatter(false, 10).format(m).contains(QStringLiteral("hello"))) + QLatin1Char('\n');
    out += QString::number(CategoryFilter(QStringLiteral("probe.*=false")).filter(m)) + QLatin1Char('\n');
    {
        SimplePipeline p;
        p.addSeqNumber().filterLevel(QtInfoMsg).format(QStringLiteral("%{seq_number} %{message}"))
                .sendToFile(dir + QStringLiteral("/probe.log"), 64, 3, RotatingFileSink::Compression);
        for (int i = 0; i < 12; ++i) p.process(m);
        p.flush();
    }
    out += QString::number(QDir(dir).entryList(QDir::Files).size() > 1) + QLatin1Char('\n');
#ifdef QTLOGGER_SYSLOG
    {
        SyslogSink s(QStringLiteral("verif-probe"));
        out += QStringLiteral("syslog\n");
    }
#endif
#ifndef QTLOGGER_NO_THREAD
    {
        QCoreApplication app(argc, argv);
        OwnThreadHandler<SimplePipeline> h;
        int n = 0;
        h.handler([&n](LogMessage &) { ++n; return true; });
        h.moveToOwnThread();
        LogMessage m2(m);
        h.process(m2);
        h.resetOwnThread();
        out += QString::number(n) + QLatin1Char('\n');
    }
#endif
    gQtLogger.configure();
    Logger::restorePreviousMessageHandler();
    fputs(out.toUtf8().constData(), stdout);
    return 0;
}
