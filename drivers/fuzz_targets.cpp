// libFuzzer targets for C14 (clang, ASan+UBSan).  One binary; the target is chosen with FUZZ_TARGET:
//   patgram   grammar-directed patterns (tokens of the mini-language, arbitrary numbers in every slot) x messages
//   pattern   pattern x message x category x file x function x attributes x type  -> PatternFormatter
//   func      %{func} %{function} %{shortfile} %{shortfile <base>} on arbitrary function / file bytes
//   pretty    PrettyFormatter (colour on/off, width, many thread ids via distinct messages)
//   json      JsonFormatter (compact / indented) with attribute trees
//   sentry    SentryFormatter
//   catfilter CategoryFilter rule string (<= 256 B) x probed category (<= 256 B) x type
//   regexp    RegExpFilter: index into a fixed menu of expressions x arbitrary message
//   filters   DuplicateFilter / LevelFilter sequences
// Only translation units C14 is anchored in are linked (formatters/*.cpp, filters/*.cpp): clang 14 rejects logger.cpp
// (defaulted LogMessage() with a const QMessageLogContext member), see DESIGN §3.7.
#include <cstdint>
#include <cstdlib>
#include <cstring>
#include <memory>
#include <string>
#include <vector>

#include <fuzzer/FuzzedDataProvider.h>

#include <QtCore>

#include "qtlogger/filters/categoryfilter.h"
#include "qtlogger/filters/duplicatefilter.h"
#include "qtlogger/filters/levelfilter.h"
#include "qtlogger/filters/regexpfilter.h"
#include "qtlogger/formatters/jsonformatter.h"
#include "qtlogger/formatters/patternformatter.h"
#include "qtlogger/formatters/prettyformatter.h"
#include "qtlogger/formatters/sentryformatter.h"
#include "qtlogger/logmessage.h"

extern "C" void qtlogger_verif_point(const char *, const void *) { }

using namespace QtLogger;

#if defined(__SANITIZE_ADDRESS__)
#  define VERIF_ASAN 1
#elif defined(__has_feature)
#  if __has_feature(address_sanitizer)
#    define VERIF_ASAN 1
#  endif
#endif
#ifdef VERIF_ASAN
#  include <sanitizer/asan_interface.h>
#  define VERIF_POISON(p, n) do { if ((n) > 0) __asan_poison_memory_region((p), (n)); } while (0)
#  define VERIF_UNPOISON(p, n) __asan_unpoison_memory_region((p), (n))
#else
#  define VERIF_POISON(p, n) do { (void)(p); (void)(n); } while (0)
#  define VERIF_UNPOISON(p, n) do { (void)(p); (void)(n); } while (0)
#endif

namespace {

enum Target { Pattern, PatGram, Func, Pretty, Json, Sentry, CatFilter, RegExp, Filters };
Target g_target = Pattern;

const QtMsgType kTypes[] = { QtDebugMsg, QtInfoMsg, QtWarningMsg, QtCriticalMsg, QtFatalMsg };

const char *const kRegexMenu[] = {
    "error", "^start", "end$", "^$", "[0-9]+", "(foo|bar)baz", "a{2,3}b", "^[A-Z][a-z]+ [0-9]{1,3}$", "colou?r", "\\.log$", "^(?!skip)",
    "x.y", "[^a-z]", "(ab)+c", "\\[tag\\]", "^.{0,5}$", "(a+)+$", "(a|aa)+$", "(?<=foo)bar", "(?i)warn(ing)?", "\\bword\\b",
    "(\\d+)\\.(\\d+)\\.(\\d+)", "^(?:[a-z0-9_]+\\.)*[a-z0-9_]+$", "\\p{Lu}\\p{Ll}+",
};

// a pattern may legitimately ask for an enormous field ("%{message:<2000000000}"): running out of memory on it is resource exhaustion
// honoured as requested, not memory unsafety - such inputs (six or more consecutive digits) are outside the property's scope
bool hugeWidth(const std::string &p)
{
    int run = 0;
    for (char c : p) {
        if (c >= '0' && c <= '9') {
            if (++run >= 6) return true;
        } else {
            run = 0;
        }
    }
    return false;
}

struct Msg
{
    QByteArray file, func, cat;
    bool fileNull = false, funcNull = false, catNull = false;
    QString text;
    QtMsgType type = QtDebugMsg;
    int line = 0;
    QVariantHash attrs;

    LogMessage make() const
    {
        QMessageLogContext ctx(fileNull ? nullptr : file.constData(), line, funcNull ? nullptr : func.constData(),
                               catNull ? nullptr : cat.constData());
        LogMessage m(type, ctx, text);
        for (auto it = attrs.begin(); it != attrs.end(); ++it) m.setAttribute(it.key(), it.value());
        return m;
    }
};

QVariant value(FuzzedDataProvider &fdp, int depth)
{
    switch (fdp.ConsumeIntegralInRange<int>(0, depth < 3 ? 7 : 5)) {
    case 0: return QString::fromUtf8(fdp.ConsumeRandomLengthString(64).c_str());
    case 1: return fdp.ConsumeIntegral<qlonglong>();
    case 2: return fdp.ConsumeBool();
    case 3: return fdp.ConsumeFloatingPoint<double>();
    case 4: return QVariant();
    case 5: return QByteArray(fdp.ConsumeRandomLengthString(32).c_str());
    case 6: {
        QVariantList l;
        int n = fdp.ConsumeIntegralInRange<int>(0, 4);
        for (int i = 0; i < n; ++i) l.append(value(fdp, depth + 1));
        return l;
    }
    default: {
        QVariantMap m;
        int n = fdp.ConsumeIntegralInRange<int>(0, 4);
        for (int i = 0; i < n; ++i) m.insert(QString::fromUtf8(fdp.ConsumeRandomLengthString(12).c_str()), value(fdp, depth + 1));
        return m;
    }
    }
}

Msg message(FuzzedDataProvider &fdp, size_t maxText)
{
    Msg m;
    m.type = kTypes[fdp.ConsumeIntegralInRange<int>(0, 4)];
    m.line = fdp.ConsumeIntegral<int>();
    uint8_t nulls = fdp.ConsumeIntegral<uint8_t>();
    m.fileNull = (nulls & 7) == 0;
    m.funcNull = ((nulls >> 3) & 7) == 0;
    m.catNull = ((nulls >> 6) & 3) == 0;
    m.file = QByteArray(fdp.ConsumeRandomLengthString(200).c_str());
    m.func = QByteArray(fdp.ConsumeRandomLengthString(400).c_str());
    m.cat = QByteArray(fdp.ConsumeRandomLengthString(64).c_str());
    int na = fdp.ConsumeIntegralInRange<int>(0, 6);
    static const char *names[] = { "user", "seq_number", "appname", "appversion", "os_name", "host_name", "cpu_arch", "x", "", "a b" };
    for (int i = 0; i < na; ++i) {
        QString name = fdp.ConsumeBool() ? QString::fromLatin1(names[fdp.ConsumeIntegralInRange<int>(0, 9)])
                                         : QString::fromUtf8(fdp.ConsumeRandomLengthString(16).c_str());
        m.attrs.insert(name, value(fdp, 0));
    }
    m.text = QString::fromUtf8(fdp.ConsumeRandomLengthString(maxText).c_str());
    return m;
}

} // namespace

extern "C" int LLVMFuzzerInitialize(int *, char ***)
{
    const char *t = getenv("FUZZ_TARGET");
    std::string s = t ? t : "pattern";
    if (s == "pattern") g_target = Pattern;
    else if (s == "patgram") g_target = PatGram;
    else if (s == "func") g_target = Func;
    else if (s == "pretty") g_target = Pretty;
    else if (s == "json") g_target = Json;
    else if (s == "sentry") g_target = Sentry;
    else if (s == "catfilter") g_target = CatFilter;
    else if (s == "regexp") g_target = RegExp;
    else if (s == "filters") g_target = Filters;
    else {
        fprintf(stderr, "unknown FUZZ_TARGET %s\n", s.c_str());
        exit(3);
    }
    return 0;
}

extern "C" int LLVMFuzzerTestOneInput(const uint8_t *data, size_t size)
{
    if (size > 70000) return 0;
    FuzzedDataProvider fdp(data, size);
    switch (g_target) {
    case Pattern: {
        std::string pattern = fdp.ConsumeRandomLengthString(65536);
        if (hugeWidth(pattern)) return 0;
        Msg m = message(fdp, 4096);
        PatternFormatter pf(QString::fromUtf8(pattern.c_str(), int(pattern.size())));
        LogMessage lm = m.make();
        volatile int n = pf.format(lm).size();
        (void)n;
        // a second message of another type through the same formatter (conditionals, cached tokens)
        Msg m2 = m;
        m2.type = kTypes[(int(m.type) + 1) % 5];
        LogMessage lm2 = m2.make();
        n = pf.format(lm2).size();
        break;
    }
    case PatGram: {
        // grammar-directed patterns: tokens of the mini-language with arbitrary (also negative / oversized) numbers in every slot
        static const char *const names[] = { "message", "type", "category", "file", "shortfile", "line", "function", "func", "threadid",
                                             "qthreadptr", "time", "time process", "time boot", "time hh:mm:ss.zzz", "user", "seq_number",
                                             "x", "shortfile /home" };
        static const char *const fills[] = { "", "0", " ", "*", ":", "%", "}" , "\xc3\xa9" };
        static const char *const aligns[] = { "", "<", ">", "^" };
        std::string pattern;
        int ntok = fdp.ConsumeIntegralInRange<int>(1, 12);
        for (int i = 0; i < ntok; ++i) {
            switch (fdp.ConsumeIntegralInRange<int>(0, 7)) {
            case 0:
                pattern += fdp.ConsumeRandomLengthString(12);
                break;
            case 1:
                pattern += "%%";
                break;
            case 2: {
                pattern += std::string("%{if-") + (fdp.ConsumeBool() ? "warning" : fdp.ConsumeBool() ? "debug" : "fatal") + "}";
                break;
            }
            case 3:
                pattern += "%{endif}";
                break;
            case 4: { // optional attribute forms
                pattern += std::string("%{") + names[fdp.ConsumeIntegralInRange<int>(14, 16)] + "?";
                int form = fdp.ConsumeIntegralInRange<int>(0, 3);
                int n = fdp.ConsumeIntegralInRange<int>(-60, 60), mth = fdp.ConsumeIntegralInRange<int>(-5000, 5000);
                if (form == 1) pattern += std::to_string(n);
                if (form == 2) pattern += std::to_string(n) + "," + std::to_string(mth);
                if (form == 3) pattern += "," + std::to_string(mth);
                pattern += "}";
                break;
            }
            case 5:
                pattern += "%{";
                pattern += fdp.ConsumeRandomLengthString(10);
                break;
            default: { // placeholder with a format spec
                pattern += std::string("%{") + names[fdp.ConsumeIntegralInRange<int>(0, 17)];
                if (fdp.ConsumeBool()) {
                    pattern += std::string(":") + fills[fdp.ConsumeIntegralInRange<int>(0, 7)] + aligns[fdp.ConsumeIntegralInRange<int>(0, 3)]
                            + std::to_string(fdp.ConsumeIntegralInRange<int>(-5, 3000)) + (fdp.ConsumeBool() ? "!" : "");
                }
                pattern += "}";
                break;
            }
            }
        }
        Msg m = message(fdp, 256);
        PatternFormatter pf(QString::fromUtf8(pattern.c_str(), int(pattern.size())));
        for (int t = 0; t < 5; t += 2) {
            Msg mt = m;
            mt.type = kTypes[t];
            LogMessage lm = mt.make();
            volatile int n = pf.format(lm).size();
            (void)n;
        }
        break;
    }
    case Func: {
        static const char *const pats[] = { "%{func}", "%{function}", "%{shortfile}", "%{shortfile /home/user/project}", "%{func:>20!}",
                                            "%{shortfile /}", "%{file}:%{line} %{func}" };
        Msg m;
        m.func = QByteArray(fdp.ConsumeRandomLengthString(65536).c_str());
        m.file = QByteArray(fdp.ConsumeRandomLengthString(4096).c_str());
        std::string base = fdp.ConsumeRandomLengthString(64);
        m.cat = "c";
        m.text = QStringLiteral("t");
        LogMessage lm = m.make();
        for (const char *p : pats) {
            PatternFormatter pf(QString::fromLatin1(p));
            volatile int n = pf.format(lm).size();
            (void)n;
        }
        if (!hugeWidth(base)) {
            PatternFormatter pf(QStringLiteral("%{shortfile ") + QString::fromUtf8(base.c_str()) + QStringLiteral("}"));
            volatile int n = pf.format(lm).size();
            (void)n;
        }
        // Long-lived formatters and a caller that keeps its source-location strings in scratch buffers (a scripting binding): the second
        // message sits at the same addresses as the first and is shorter.  What lies behind the new terminators is not the library's to
        // read - it is poisoned for the duration of the call, so that remembering anything about the first message by address shows.
        {
            std::string file2 = fdp.ConsumeRandomLengthString(48), func2 = fdp.ConsumeRandomLengthString(48);
            const size_t fcap = size_t(m.file.size()), ucap = size_t(m.func.size());
            char *fb = static_cast<char *>(malloc(fcap + 1)), *ub = static_cast<char *>(malloc(ucap + 1));
            memcpy(fb, m.file.constData(), fcap + 1);
            memcpy(ub, m.func.constData(), ucap + 1);
            std::vector<std::unique_ptr<PatternFormatter>> pfs;
            for (const char *p : pats) pfs.emplace_back(new PatternFormatter(QString::fromLatin1(p)));
            {
                QMessageLogContext ctx(fb, 1, ub, "c");
                LogMessage first(QtWarningMsg, ctx, QStringLiteral("t"));
                for (auto &pf : pfs) {
                    volatile int n = pf->format(first).size();
                    (void)n;
                }
            }
            if (file2.size() > fcap) file2.resize(fcap);
            if (func2.size() > ucap) func2.resize(ucap);
            memcpy(fb, file2.c_str(), file2.size() + 1);
            memcpy(ub, func2.c_str(), func2.size() + 1);
            VERIF_POISON(fb + file2.size() + 1, fcap - file2.size());
            VERIF_POISON(ub + func2.size() + 1, ucap - func2.size());
            {
                QMessageLogContext ctx(fb, 2, ub, "c");
                LogMessage second(QtWarningMsg, ctx, QStringLiteral("t"));
                for (auto &pf : pfs) {
                    volatile int n = pf->format(second).size();
                    (void)n;
                }
            }
            VERIF_UNPOISON(fb, fcap + 1);
            VERIF_UNPOISON(ub, ucap + 1);
            free(fb);
            free(ub);
        }
        break;
    }
    case Pretty: {
        bool color = fdp.ConsumeBool();
        int width = fdp.ConsumeIntegralInRange<int>(-1, 300);
        PrettyFormatter pf(color, width);
        int n = fdp.ConsumeIntegralInRange<int>(1, 4);
        for (int i = 0; i < n; ++i) {
            Msg m = message(fdp, 2048);
            LogMessage lm = m.make();
            volatile int k = pf.format(lm).size();
            (void)k;
        }
        break;
    }
    case Json: {
        bool compact = fdp.ConsumeBool();
        Msg m = message(fdp, 65536);
        JsonFormatter jf(compact);
        LogMessage lm = m.make();
        volatile int k = jf.format(lm).size();
        (void)k;
        break;
    }
    case Sentry: {
        QString sdkn = QString::fromUtf8(fdp.ConsumeRandomLengthString(32).c_str());
        QString sdkv = QString::fromUtf8(fdp.ConsumeRandomLengthString(16).c_str());
        Msg m = message(fdp, 65536);
        SentryFormatter sf(sdkn, sdkv);
        LogMessage lm = m.make();
        volatile int k = sf.format(lm).size();
        (void)k;
        break;
    }
    case CatFilter: {
        std::string rules = fdp.ConsumeRandomLengthString(256);
        CategoryFilter cf(QString::fromUtf8(rules.c_str(), int(rules.size())));
        int n = fdp.ConsumeIntegralInRange<int>(1, 4);
        for (int i = 0; i < n; ++i) {
            Msg m;
            m.cat = QByteArray(fdp.ConsumeRandomLengthString(256).c_str());
            m.catNull = fdp.ConsumeIntegralInRange<int>(0, 15) == 0;
            m.type = kTypes[fdp.ConsumeIntegralInRange<int>(0, 4)];
            m.text = QStringLiteral("x");
            LogMessage lm = m.make();
            volatile bool v = cf.filter(lm);
            (void)v;
        }
        break;
    }
    case RegExp: {
        const int idx = fdp.ConsumeIntegralInRange<int>(0, int(sizeof(kRegexMenu) / sizeof(kRegexMenu[0])) - 1);
        RegExpFilter rf(QString::fromLatin1(kRegexMenu[idx]));
        Msg m;
        m.text = QString::fromUtf8(fdp.ConsumeRemainingBytesAsString().c_str());
        m.cat = "c";
        LogMessage lm = m.make();
        volatile bool v = rf.filter(lm);
        (void)v;
        break;
    }
    case Filters: {
        DuplicateFilter df;
        LevelFilter lf(kTypes[fdp.ConsumeIntegralInRange<int>(0, 4)]);
        int n = fdp.ConsumeIntegralInRange<int>(1, 16);
        for (int i = 0; i < n; ++i) {
            Msg m;
            m.type = kTypes[fdp.ConsumeIntegralInRange<int>(0, 4)];
            m.text = fdp.ConsumeBool() ? QString() : QString::fromUtf8(fdp.ConsumeRandomLengthString(64).c_str());
            LogMessage lm = m.make();
            volatile bool v = df.filter(lm) && lf.filter(lm);
            (void)v;
        }
        break;
    }
    }
    return 0;
}
