// Default (no-op) definition of the guarded verification hook for drivers that do not steer
// schedules.
extern "C" void qtlogger_verif_point(const char *, const void *) { }
