// shim_sys — libc interposition from the driver executable (linked -rdynamic):
//   * virtual wall clock (gettimeofday / clock_gettime(REALTIME) / time)
//   * file-syscall monitor for paths below a watched directory: event log, mtime stamping from the
//     virtual clock at every write()/create (the kernel's job, re-done in virtual time), unlink-time
//     snapshots, and single-shot fault injection (crash before / short write + crash / errno).
#pragma once
#include <cstdint>
#include <string>
#include <vector>

namespace shim {

struct Event
{
    std::string kind;   // open write close rename link unlink ftruncate fsync
    std::string a, b;   // paths (b: rename/link target)
    long long n = 0;    // bytes written / flags
    int err = 0;        // errno if the call failed (0 = success)
    bool injected = false;
    std::string snapA;  // unlink: bytes of the file just before it disappears
    bool hasSnapA = false;
    std::string snapGz; // unlink of X: bytes of X.gz at that moment (if it exists)
    bool hasSnapGz = false;
    std::string snapB;  // rename: bytes of an already existing target (overwrite detection)
    bool hasSnapB = false;
};

// clock
void clockEnable(bool on);
void clockSet(int64_t ms);
int64_t clockNowMs();
void clockAdvance(int64_t ms);
void clockMidnightAtRead(int k); // the k-th clock read from now jumps to the next midnight (0 = off)
long clockReads();
void setGranularityNs(int64_t ns); // 0 = no stamping (real timestamps)

// monitor
void watchDir(const std::string &absDir);
std::vector<Event> drainEvents();
long mutatingCalls();

// fault injection: at the k-th mutating call (1-based) counted from arm():
enum Mode { Off = 0, CrashBefore = 1, ShortWriteCrash = 2, FailErrno = 3, FailSticky = 4 };
void arm(long k, Mode m, int err);
void thenCrashAt(long j); // after the armed failure: crash before the j-th later mutating call
bool faultFired();
const char *faultCallName();

} // namespace shim
