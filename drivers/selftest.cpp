// Plumbing self-tests for the sanitizer flavours (run by selfcheck.sh / setup): each mode must produce the outcome the
// framework relies on, otherwise setup fails (exit 2) instead of checks silently losing their teeth.
//   tsan-protected    two threads, counter guarded by QMutex        -> TSan must stay silent (QMutex --wrap shim works)
//   tsan-unprotected  two threads, unguarded counter                 -> TSan must report a data race
//   asan-overflow     heap buffer overflow                            -> ASan must abort
//   debug-range       std::find_if on a reversed iterator range       -> libstdc++ debug mode must abort
#include <algorithm>
#include <cstdio>
#include <cstring>
#include <string>
#include <thread>
#include <vector>

#include <QMutex>
#include <QMutexLocker>

extern "C" void qtlogger_verif_point(const char *, const void *) { }

static long g_counter = 0;
static QMutex g_mutex;

int main(int argc, char **argv)
{
    const std::string mode = argc > 1 ? argv[1] : "";
    if (mode == "tsan-protected" || mode == "tsan-unprotected") {
        const bool lock = mode == "tsan-protected";
        auto work = [lock]() {
            for (int i = 0; i < 20000; ++i) {
                if (lock) {
                    QMutexLocker l(&g_mutex);
                    ++g_counter;
                } else {
                    ++g_counter;
                }
            }
        };
        std::thread a(work), b(work);
        a.join();
        b.join();
        printf("%ld\n", g_counter);
        return 0;
    }
    if (mode == "asan-overflow") {
        char *p = new char[16];
        volatile int idx = 16 + (argc > 5 ? 1 : 0);
        memset(p, 'x', size_t(idx) + 1); // through an intercepted libc function: ASan's own detection, not UBSan's object-size check
        printf("%c\n", p[3]);
        delete[] p;
        return 0;
    }
    if (mode == "debug-range") {
        std::vector<int> v { 1, 2, 3, 4 };
        auto it = std::find_if(v.begin() + 3, v.begin(), [](int x) { return x == 9; });
        printf("%d\n", int(it - v.begin()));
        return 0;
    }
    return 3;
}
