// drv_conc — threaded history recorder for C02 (synchronous, concurrent producers) and C03
// (asynchronous hand-off).  It drives the real Logger / OwnThreadHandler with N producer threads
// under hook-injected schedule noise and records what the harness' own handlers and sinks observe.
// No oracle logic: every line of the output file is an observation; vlib/hist_conc.py decides.
//
//   drv_conc c02 <out> <target:logger|bare> <producers> <msgs> <sinkprofile> <noise> <cores> <seed> [<mode switches> [<pace us>]]
//   drv_conc c03 <out> <target:logger|bare> <producers> <msgs> <sinkprofile> <noise> <cores> <seed> <burst>
#include <atomic>
#include <chrono>
#include <cstdio>
#include <cstdlib>
#include <cstring>
#include <random>
#include <sched.h>
#include <string>
#include <thread>
#include <vector>

#include <QtCore>

#include "qtlogger/qtlogger.h"
#include "hooks_impl.h"

using namespace QtLogger;

namespace {

// ------------------------------------------------------------------ thread-safe append-only log
struct Rec
{
    char kind;
    long long a = 0, b = 0, c = 0, d = 0;
    std::string s;
};
// sized in main() from the history's parameters: constructing millions of empty records costs seconds under ThreadSanitizer on a
// loaded machine, before the first observation could be made
size_t kMaxRecs = 0;
std::vector<Rec> g_recs;
std::atomic<size_t> g_nrec { 0 };

void rec(char kind, long long a, long long b = 0, long long c = 0, long long d = 0, std::string s = std::string())
{
    size_t i = g_nrec.fetch_add(1);
    if (i >= kMaxRecs) return;
    Rec &r = g_recs[i];
    r.kind = kind;
    r.a = a;
    r.b = b;
    r.c = c;
    r.d = d;
    r.s.swap(s);
}

std::string hexOf(const QByteArray &b)
{
    static const char *d = "0123456789abcdef";
    std::string r;
    r.reserve(size_t(b.size()) * 2 + 1);
    for (unsigned char c : b) {
        r.push_back(d[c >> 4]);
        r.push_back(d[c & 15]);
    }
    if (r.empty()) r = "-";
    return r;
}
std::string hexOf(const QString &s)
{
    return hexOf(s.toUtf8());
}
std::string hexC(const char *p)
{
    if (!p) return "~";
    return hexOf(QByteArray(p));
}

void spinUs(long us)
{
    if (us <= 0) return;
    if (us >= 1000) {
        std::this_thread::sleep_for(std::chrono::microseconds(us));
        return;
    }
    auto end = std::chrono::steady_clock::now() + std::chrono::microseconds(us);
    while (std::chrono::steady_clock::now() < end) { }
}

std::atomic<long long> g_ticket { 0 };
long long ticket()
{
    return g_ticket.fetch_add(1) + 1;
}

// sink duration profiles: 0 none, 1 yield, 2 short spin (1-300 us), 3 occasional 2 ms sleep, 4 mixed, 5 convoy (100 ms each)
void sinkDelay(int profile, uint64_t salt)
{
    uint64_t z = salt * 0x9e3779b97f4a7c15ULL;
    z ^= z >> 29;
    switch (profile) {
    case 1:
        sched_yield();
        break;
    case 2:
        spinUs(1 + long(z % 300));
        break;
    case 3:
        if (z % 64 == 0) spinUs(2000);
        break;
    case 4:
        if (z % 97 == 0)
            spinUs(2000);
        else if (z % 3 == 0)
            spinUs(long(z % 120));
        else if (z % 3 == 1)
            sched_yield();
        break;
    case 5:
        spinUs(100000); // convoy: every message holds the pipeline for 100 ms
        break;
    default:
        break;
    }
}

void setAffinity(int cores)
{
    if (cores <= 0) return;
    cpu_set_t set;
    CPU_ZERO(&set);
    for (int i = 0; i < cores; ++i) CPU_SET(i, &set);
    sched_setaffinity(0, sizeof set, &set);
}

long long idOfLine(const char *file, int line)
{
    // file = "p<k>" -> id = k * 10^6 + line
    if (!file || file[0] != 'p') return -1;
    return atoll(file + 1) * 1000000LL + line;
}

std::string attrsOf(const QVariantHash &h)
{
    QStringList keys = h.keys();
    keys.sort();
    QString out;
    for (const auto &k : keys) out += k + QLatin1Char('=') + h.value(k).toString() + QLatin1Char(';');
    return hexOf(out);
}

std::string snapshot(const LogMessage &m)
{
    // every accessor of the message, one token each
    std::string s;
    s += std::to_string(int(m.type())) + " " + hexOf(m.message()) + " " + hexC(m.file()) + " " + std::to_string(m.line()) + " "
            + hexC(m.function()) + " " + hexC(m.category()) + " " + std::to_string(m.time().toMSecsSinceEpoch()) + " "
            + std::to_string(std::chrono::duration_cast<std::chrono::nanoseconds>(m.steadyTime().time_since_epoch()).count()) + " "
            + std::to_string((unsigned long long)m.threadId()) + " " + std::to_string((unsigned long long)m.qthreadptr()) + " "
            + (m.isFormatted() ? hexOf(m.formattedMessage()) : std::string("~")) + " " + attrsOf(m.attributes());
    return s;
}

void dump(const char *path)
{
    FILE *f = fopen(path, "w");
    if (!f) exit(3);
    if (g_nrec.load() > kMaxRecs) {
        // never silently: a truncated log would read as lost messages
        fprintf(stderr, "drv_conc: recorder overflow (%zu observations, room for %zu)\n", g_nrec.load(), kMaxRecs);
        exit(5);
    }
    if (getenv("VERIF_REC_STATS")) fprintf(stderr, "recs=%zu cap=%zu\n", g_nrec.load(), kMaxRecs);
    size_t n = std::min(g_nrec.load(), kMaxRecs);
    for (size_t i = 0; i < n; ++i) {
        const Rec &r = g_recs[i];
        fprintf(f, "%c %lld %lld %lld %lld %s\n", r.kind, r.a, r.b, r.c, r.d, r.s.c_str());
    }
    fprintf(f, "# hooks total=%llu noise=%llu logger.locked=%llu oth.locked=%llu oth.post=%llu oth.deliver=%llu oth.sync=%llu\n",
            (unsigned long long)vhook::totalPoints(), (unsigned long long)vhook::noiseApplied(),
            (unsigned long long)vhook::count("logger.locked"), (unsigned long long)vhook::count("oth.locked"),
            (unsigned long long)vhook::count("oth.post"), (unsigned long long)vhook::count("oth.deliver"),
            (unsigned long long)vhook::count("oth.sync"));
    fprintf(f, "END %zu\n", n);
    fclose(f);
}

// ======================================================================================= C02
std::atomic<int> g_inflight { 0 };
std::atomic<long long> g_lin { 0 };

struct Probe
{
    // records where a message is inside the pipeline; all state is atomics + the append-only log
    static bool entry(LogMessage &m)
    {
        int v = g_inflight.fetch_add(1);
        long long L = g_lin.fetch_add(1);
        m.setAttribute(QStringLiteral("L"), L);
        rec('E', idOfLine(m.file(), m.line()), L, v);
        return true;
    }
    static bool exit(LogMessage &m)
    {
        int v = g_inflight.fetch_sub(1);
        rec('X', idOfLine(m.file(), m.line()), m.attribute(QStringLiteral("L")).toLongLong(), v);
        return true;
    }
};

class RecSink : public Sink
{
public:
    RecSink(char tag, int profile) : m_tag(tag), m_profile(profile) { }
    void send(const LogMessage &m) override
    {
        const long long id = idOfLine(m.file(), m.line());
        sinkDelay(m_profile, uint64_t(id) + uint64_t(m_tag));
        rec(m_tag, id, m.attribute(QStringLiteral("L")).toLongLong(),
            m.hasAttribute(QStringLiteral("seq_number")) ? m.attribute(QStringLiteral("seq_number")).toLongLong() : -1,
            (long long)(quintptr)QThread::currentThreadId(), hexOf(m.formattedMessage()));
    }

private:
    char m_tag;
    int m_profile;
};

template<typename Target>
void buildC02(Target &t, int profile)
{
    // outer level (unscoped): entry probe, counter, nested filter pipeline, second nested pipeline, exit probe
    t.append(FunctionHandlerPtr::create(&Probe::entry));
    t.append(SeqNumberAttrPtr::create());
    auto filtered = PipelinePtr::create(false);
    filtered->append(LevelFilterPtr::create(QtInfoMsg));
    filtered->append(CategoryFilterPtr::create(QStringLiteral("noisy.*=false")));
    filtered->append(FunctionHandlerPtr::create([](LogMessage &m) {
        rec('B', idOfLine(m.file(), m.line()), m.attribute(QStringLiteral("L")).toLongLong(), 0, 0, hexOf(m.message()));
        return true;
    }));
    filtered->append(DuplicateFilterPtr::create());
    filtered->append(PatternFormatterPtr::create(QStringLiteral("%{seq_number}|%{type}|%{message}")));
    filtered->append(QSharedPointer<RecSink>::create('A', profile));
    t.append(filtered);
    auto all = PipelinePtr::create(true);
    all->append(PrettyFormatterPtr::create(false, 10));
    all->append(QSharedPointer<RecSink>::create('S', profile == 0 || profile == 5 ? 0 : 1));
    t.append(all);
    t.append(FunctionHandlerPtr::create(&Probe::exit));
}

const char *kTexts[] = { "alpha", "alpha", "beta", "alpha", "gamma", "gamma", "gamma", "delta" };

int runC02(int argc, char **argv)
{
    if (argc < 10) return 3;
    const char *out = argv[2];
    const std::string target = argv[3];
    const int producers = atoi(argv[4]), msgs = atoi(argv[5]), profile = atoi(argv[6]);
    vhook::configureFromString(argv[7]);
    const int cores = atoi(argv[8]);
    const unsigned long long seed = strtoull(argv[9], nullptr, 10);
    setAffinity(cores);

    const int switches = argc > 10 ? atoi(argv[10]) : 0;
    // paced producers: a random pause of up to pace_us after every message, so that they are still logging - at about the rate the sink
    // delivers - while the switcher goes through its cycles (unpaced, they queue everything during the first asynchronous phase)
    const long paceUs = argc > 11 ? atol(argv[11]) : 0;
    // with mode switches the logger needs an application object (the own thread's event delivery depends on it)
    QCoreApplication *app = switches > 0 ? new QCoreApplication(argc, argv) : nullptr;
    (void)app;
    OwnThreadHandler<Pipeline> bare; // synchronous unless the switcher moves it
    if (target == "logger") {
        buildC02(gQtLogger, profile);
        gQtLogger.installMessageHandler();
    } else {
        buildC02(bare, profile);
    }
    std::atomic<bool> producing { true };
    std::thread switcher;
    if (switches > 0) {
        // the logger changes between synchronous and asynchronous mode while the producers log: the pipeline must stay exclusive,
        // exactly-once and ordered across every switch
        switcher = std::thread([&]() {
            std::mt19937_64 rng(seed * 31ULL + 7);
            for (int c = 0; c < switches && producing.load(); ++c) {
                spinUs(long(rng() % 3000));
                rec('M', c, ticket());
                if (target == "logger")
                    gQtLogger.moveToOwnThread();
                else
                    bare.moveToOwnThread();
                spinUs(long(rng() % 3000));
                rec('N', c, ticket());
                if (target == "logger")
                    gQtLogger.resetOwnThread();
                else
                    bare.resetOwnThread();
                rec('O', c, ticket());
            }
        });
    }
    std::atomic<int> ready { 0 };
    std::vector<std::thread> th;
    std::vector<std::string> files;
    files.resize(size_t(producers));
    for (int p = 0; p < producers; ++p) files[size_t(p)] = "p" + std::to_string(p);
    for (int p = 0; p < producers; ++p) {
        th.emplace_back([&, p]() {
            std::mt19937_64 rng(seed * 1000003ULL + uint64_t(p));
            ready.fetch_add(1);
            while (ready.load() < producers) std::this_thread::sleep_for(std::chrono::microseconds(200));
            const char *file = files[size_t(p)].c_str();
            for (int i = 0; i < msgs; ++i) {
                const int r = int(rng() % 1000);
                const QtMsgType type = r % 4 == 0 ? QtDebugMsg : r % 4 == 1 ? QtInfoMsg : r % 4 == 2 ? QtWarningMsg : QtCriticalMsg;
                const char *cat = (r % 7 == 0) ? "noisy.net" : (r % 7 == 1 ? "app.core" : "default");
                const char *text = kTexts[(r / 7) % 8];
                const long long id = (long long)p * 1000000LL + i;
                rec('C', id, ticket(), int(type), r % 7 == 0, hexOf(QByteArray(text)));
                if (target == "logger") {
                    QMessageLogger ml(file, i, "fn", cat);
                    switch (type) {
                    case QtDebugMsg: ml.debug("%s", text); break;
                    case QtInfoMsg: ml.info("%s", text); break;
                    case QtWarningMsg: ml.warning("%s", text); break;
                    default: ml.critical("%s", text); break;
                    }
                } else {
                    QMessageLogContext ctx(file, i, "fn", cat);
                    LogMessage m(type, ctx, QString::fromLatin1(text));
                    bare.process(m);
                }
                rec('R', id, ticket());
                if (r % 50 == 0) sched_yield();
                if (paceUs > 0) spinUs(long(rng() % uint64_t(paceUs)));
            }
        });
    }
    for (auto &t : th) t.join();
    producing = false;
    if (switcher.joinable()) switcher.join();
    if (switches > 0) {
        if (target == "logger")
            gQtLogger.resetOwnThread();
        else
            bare.resetOwnThread();
    }
    dump(out);
    return 0;
}

// ======================================================================================= C02b
// Two independently locked pipelines (the installed Logger and a bare own-thread-capable SimplePipeline), both configured through the
// fluent keyword API, receive messages from disjoint producer sets at the same time.  Each pipeline serialises its own producers; what
// the two must not do is share mutable state behind the caller's back.  Observations: deliveries per sink ('S' logger, 'U' bare).
class TagSink : public Sink
{
public:
    TagSink(char tag, int profile) : m_tag(tag), m_profile(profile) { }
    void send(const LogMessage &m) override
    {
        const long long id = idOfLine(m.file(), m.line());
        sinkDelay(m_profile, uint64_t(id));
        rec(m_tag, id, 0, 0, (long long)(quintptr)QThread::currentThreadId(), hexOf(m.formattedMessage()));
    }

private:
    char m_tag;
    int m_profile;
};

int runC02b(int argc, char **argv)
{
    if (argc < 10) return 3;
    const char *out = argv[2];
    const std::string fmt = argv[3]; // pretty | qt | default | json
    const int producers = atoi(argv[4]), msgs = atoi(argv[5]), profile = atoi(argv[6]);
    vhook::configureFromString(argv[7]);
    setAffinity(atoi(argv[8]));
    const unsigned long long seed = strtoull(argv[9], nullptr, 10);
    OwnThreadHandler<SimplePipeline> bare;
    auto build = [&](SimplePipeline &p, char tag) {
        p.addSeqNumber();
        if (fmt == "json")
            p.formatToJson(true);
        else
            p.format(QString::fromStdString(fmt));
        p.append(QSharedPointer<TagSink>::create(tag, profile));
    };
    build(gQtLogger, 'S');
    build(bare, 'U');
    gQtLogger.installMessageHandler();
    std::atomic<int> ready { 0 };
    std::vector<std::thread> th;
    std::vector<std::string> files;
    files.resize(size_t(producers));
    for (int p = 0; p < producers; ++p) files[size_t(p)] = "p" + std::to_string(p);
    for (int p = 0; p < producers; ++p) {
        th.emplace_back([&, p]() {
            std::mt19937_64 rng(seed * 1000003ULL + uint64_t(p));
            ready.fetch_add(1);
            while (ready.load() < producers) std::this_thread::sleep_for(std::chrono::microseconds(200));
            const char *file = files[size_t(p)].c_str();
            for (int i = 0; i < msgs; ++i) {
                const long long id = (long long)p * 1000000LL + i;
                rec('C', id, ticket(), p % 2);
                if (p % 2 == 0) {
                    QMessageLogger(file, i, "fn", "app").info("msg %lld", id);
                } else {
                    QMessageLogContext ctx(file, i, "fn", "app");
                    LogMessage m(QtInfoMsg, ctx, QStringLiteral("msg %1").arg(id));
                    bare.process(m);
                }
                rec('R', id, ticket());
                if ((rng() & 31) == 0) sched_yield();
            }
        });
    }
    for (auto &t : th) t.join();
    dump(out);
    return 0;
}

// ======================================================================================= C03
std::vector<std::atomic<int>> *g_returned = nullptr; // per message: the producer's call has returned
int g_msgsPerProducer = 0;
QThread *g_own = nullptr;

size_t slotOf(long long id)
{
    return size_t(id / 1000000LL) * size_t(g_msgsPerProducer) + size_t(id % 1000000LL);
}

class AsyncSink : public Sink
{
public:
    AsyncSink(int profile) : m_profile(profile) { }
    void send(const LogMessage &m) override
    {
        const long long id = idOfLine(m.file(), m.line());
        const long long t = ticket();
        long long waited = 0;
        static std::atomic<bool> gateBroken { false }; // one timed-out gate is evidence enough: do not wait 20 s for every later one
        if (id >= 0 && (id % 13) == 0 && !gateBroken.load()) {
            // gated delivery: only the producing thread opens the gate, after its log call has returned.  If the call needed this
            // sink to finish first, this is a deadlock; the wait is bounded so that the run can report it.
            auto begin = std::chrono::steady_clock::now();
            while (!(*g_returned)[slotOf(id)].load()) {
                if (std::chrono::steady_clock::now() - begin > std::chrono::seconds(20)) {
                    waited = -1;
                    gateBroken = true;
                    break;
                }
                sched_yield();
            }
        } else {
            sinkDelay(m_profile, uint64_t(id));
        }
        rec('D', id, t, QThread::currentThread() == g_own ? 1 : 0, waited, snapshot(m));
    }

private:
    int m_profile;
};

void twinObserver(const char *point, const void *subject)
{
    if (strcmp(point, "oth.post.msg") != 0) return;
    const LogMessage *m = static_cast<const LogMessage *>(subject);
    rec('T', idOfLine(m->file(), m->line()), ticket(), 0, 0, snapshot(*m));
}

char *heapStr(const std::string &s)
{
    char *p = static_cast<char *>(malloc(s.size() + 1));
    memcpy(p, s.c_str(), s.size() + 1);
    return p;
}
void scrub(char *p)
{
    if (!p) return;
    memset(p, 0xDD, strlen(p));
    free(p);
}

int runC03(int argc, char **argv)
{
    if (argc < 11) return 3;
    const char *out = argv[2];
    const std::string target = argv[3];
    const int producers = atoi(argv[4]), msgs = atoi(argv[5]), profile = atoi(argv[6]);
    vhook::configureFromString(argv[7]);
    const int cores = atoi(argv[8]);
    const unsigned long long seed = strtoull(argv[9], nullptr, 10);
    const int burst = atoi(argv[10]);
    const std::string variant = argc > 11 ? argv[11] : "plain"; // plain | early | twohop
    setAffinity(cores);
    OwnThreadHandler<Pipeline> bare;
    if (variant == "early") {
        // the logger is moved to its own thread as the first statement of main(), before the application object exists
        if (target == "logger")
            gQtLogger.moveToOwnThread();
        else
            bare.moveToOwnThread();
    }
    QCoreApplication app(argc, argv);
    g_msgsPerProducer = msgs;
    const size_t totalMsgs = size_t(producers) * size_t(msgs);
    std::vector<std::atomic<int>> returned(totalMsgs);
    for (auto &a : returned) a.store(0);
    g_returned = &returned;
    vhook::setObserver(twinObserver);

    auto probe = FunctionHandlerPtr::create([](LogMessage &m) {
        rec('H', idOfLine(m.file(), m.line()), ticket(), QThread::currentThread() == g_own ? 1 : 0);
        return true;
    });
    // twohop: the sink sits behind a SECOND own-thread stage inside the pipeline, so every message is copied once more, this time by
    // the first stage's thread
    auto second = QSharedPointer<OwnThreadHandler<Pipeline>>::create();
    if (variant == "twohop") {
        second->append(probe);
        second->append(QSharedPointer<AsyncSink>::create(profile));
        second->moveToOwnThread();
    }
    if (target == "logger") {
        if (variant == "twohop") {
            gQtLogger.append(second);
        } else {
            gQtLogger.append(probe);
            gQtLogger.append(QSharedPointer<AsyncSink>::create(profile));
        }
        gQtLogger.moveToOwnThread();
        g_own = variant == "twohop" ? second->ownThread() : gQtLogger.ownThread();
        gQtLogger.installMessageHandler();
    } else {
        if (variant == "twohop") {
            bare.append(second);
        } else {
            bare.append(probe);
            bare.append(QSharedPointer<AsyncSink>::create(profile));
        }
        bare.moveToOwnThread();
        g_own = variant == "twohop" ? second->ownThread() : bare.ownThread();
    }
    rec('O', (long long)(quintptr)g_own, 0);

    std::atomic<int> ready { 0 };
    std::vector<std::thread> th;
    for (int p = 0; p < producers; ++p) {
        th.emplace_back([&, p]() {
            std::mt19937_64 rng(seed * 7919ULL + uint64_t(p));
            ready.fetch_add(1);
            while (ready.load() < producers) std::this_thread::sleep_for(std::chrono::microseconds(200));
            for (int i = 0; i < msgs; ++i) {
                const int r = int(rng() % 1000);
                const long long id = (long long)p * 1000000LL + i;
                const QtMsgType type = r % 4 == 0 ? QtDebugMsg : r % 4 == 1 ? QtInfoMsg : r % 4 == 2 ? QtWarningMsg : QtCriticalMsg;
                // caller-owned buffers, scrubbed and freed right after the call
                char *file = heapStr("p" + std::to_string(p));
                // texts that are prefixes of one another (and empty ones) in small buffers of one allocator size class, so that a
                // later message's string often sits at the address an earlier, shorter or longer, one was freed from
                static const char *const kFuncs[] = { "", "f", "fn", "fn(int)", "fn(int) const", "void ns::f()", "void ns::f() const" };
                static const char *const kCats[] = { "", "n", "net", "net.io", "net.io.tcp", "net.io.tcp.x", "app", "app.core" };
                char *func = (r % 11 == 0) ? nullptr
                        : (r % 3 == 0)     ? heapStr("void ns::Cls" + std::to_string(r) + "::method(int) const")
                                           : heapStr(kFuncs[(r / 3) % 7]);
                char *cat = (r % 9 == 0) ? nullptr : heapStr(kCats[(r / 2) % 8]);
                char *text = heapStr("payload " + std::to_string(id) + " " + std::string(size_t(r % 40), char('a' + r % 26)));
                // now and then a source location or a text far longer than anything hand-written (deeply templated Q_FUNC_INFO,
                // generated paths, dumps): lengths around 2^10, 2^12 and 2^16, differing only in their last characters
                static const size_t kLong[] = { 255, 256, 1023, 1024, 1025, 1500, 4095, 4096, 4097, 9000, 65535, 65536, 70000 };
                const size_t longLen = kLong[(r / 7) % 13];
                if (r % 37 == 0) {
                    free(func);
                    func = heapStr("void ns::T<" + std::string(longLen, 'A') + ">::f(" + std::to_string(id) + ")");
                } else if (r % 41 == 0) {
                    free(file);
                    file = heapStr("p" + std::to_string(p) + "/" + std::string(longLen, 'd') + ".cpp"); // idOfLine() reads the leading p<k>
                } else if (r % 43 == 0) {
                    free(cat);
                    cat = heapStr("long." + std::string(longLen, 'c') + "." + std::to_string(r));
                } else if (r % 47 == 0) {
                    free(text);
                    text = heapStr("payload " + std::to_string(id) + " " + std::string(longLen, 'x') + std::to_string(id));
                }
                const qint64 before = QDateTime::currentMSecsSinceEpoch();
                const long long tc = ticket();
                if (target == "logger") {
                    QMessageLogger ml(file, i, func, cat ? cat : "default");
                    switch (type) {
                    case QtDebugMsg: ml.debug("%s", text); break;
                    case QtInfoMsg: ml.info("%s", text); break;
                    case QtWarningMsg: ml.warning("%s", text); break;
                    default: ml.critical("%s", text); break;
                    }
                } else {
                    QMessageLogContext ctx(file, i, func, cat);
                    QString qtext = QString::fromUtf8(text);
                    if (r % 6 == 0) qtext = qtext.left(8) + QChar(0) + qtext.mid(8) + QChar(0); // embedded NUL characters are text too
                    LogMessage m(type, ctx, qtext);
                    if (r % 3 == 0) m.setFormattedMessage(QStringLiteral("F<") + QString::fromUtf8(text) + QLatin1Char('>'));
                    if (r % 5 == 0) m.setFormattedMessage(QStringLiteral("")); // empty but formatted
                    m.setAttribute(QStringLiteral("k"), r);
                    if (r % 2) m.setAttribute(QStringLiteral("who"), QStringLiteral("p%1").arg(p));
                    bare.process(m);
                }
                const long long tr = ticket();
                const qint64 after = QDateTime::currentMSecsSinceEpoch();
                // what the producer knows about its message, recorded before the buffers are destroyed
                QByteArray sentText(text);
                if (target != "logger" && r % 6 == 0) {
                    QString q = QString::fromUtf8(text);
                    sentText = (q.left(8) + QChar(0) + q.mid(8) + QChar(0)).toUtf8();
                }
                rec('P', id, tc, tr, (long long)(quintptr)QThread::currentThreadId(),
                    std::to_string(int(type)) + " " + hexOf(sentText) + " " + hexC(file) + " " + std::to_string(i) + " " + hexC(func) + " "
                            + hexC(cat) + " " + std::to_string(before) + " " + std::to_string(after));
                scrub(file);
                scrub(func);
                scrub(cat);
                scrub(text);
                returned[slotOf(id)].store(1);
                if (burst > 0 && (i % burst) == burst - 1) spinUs(long(rng() % 400));
            }
        });
    }
    for (auto &t : th) t.join();
    rec('J', ticket());
    if (target == "logger")
        gQtLogger.resetOwnThread();
    else
        bare.resetOwnThread();
    if (variant == "twohop") second->resetOwnThread();
    rec('Z', ticket());
    vhook::setObserver(nullptr);
    dump(out);
    return 0;
}

} // namespace

int main(int argc, char **argv)
{
    if (argc < 3) {
        fprintf(stderr, "usage: drv_conc c02|c03 <out> ...\n");
        return 3;
    }
    const std::string mode = argv[1];
    // heartbeat for the runner's progress-based hang detection: number of observations recorded so far
    std::string hb = std::string(argv[2]) + ".hb";
    {
        const size_t producers = argc > 4 ? size_t(atol(argv[4])) : 64, msgs = argc > 5 ? size_t(atol(argv[5])) : 1000;
        kMaxRecs = std::min<size_t>(4000000, producers * msgs * 40 + 300000);
        g_recs.resize(kMaxRecs);
    }
    std::thread([hb]() {
        for (;;) {
            if (FILE *f = fopen((hb + ".tmp").c_str(), "w")) {
                fprintf(f, "%zu\n", g_nrec.load());
                fclose(f);
                rename((hb + ".tmp").c_str(), hb.c_str());
            }
            std::this_thread::sleep_for(std::chrono::milliseconds(500));
        }
    }).detach();
    if (mode == "c02") return runC02(argc, argv);
    if (mode == "c02b") return runC02b(argc, argv);
    if (mode == "c03") return runC03(argc, argv);
    return 3;
}
