#include "hooks_impl.h"

#include <atomic>
#include <chrono>
#include <cstdlib>
#include <cstring>
#include <sched.h>
#include <string>
#include <time.h>

#if defined(__SANITIZE_THREAD__)
extern "C" void __tsan_acquire(void *addr);
extern "C" void __tsan_release(void *addr);
#    define VHOOK_TSAN 1
#endif

namespace {

// Fixed table of the point names the library may report (anything else lands in "other").
const char *const kNames[] = { "logger.enter",  "logger.locked",    "logger.exit",     "oth.enter",      "oth.locked",
                               "oth.post.msg",  "oth.post",         "oth.sync",        "oth.deliver",    "oth.delivered",
                               "oth.reset.enter", "oth.reset.wait", "oth.reset.quit",  "oth.reset.done", "oth.move.enter",
                               "oth.move.started", "other" };
constexpr int kN = sizeof(kNames) / sizeof(kNames[0]);
std::atomic<uint64_t> g_counts[kN];
std::atomic<uint64_t> g_total { 0 }, g_noise { 0 };

std::atomic<uint64_t> g_seed { 0 };
std::atomic<int> g_pmYield { 0 }, g_pmSpin { 0 }, g_pmSleep { 0 };
char g_prefix[32] = "";
std::atomic<vhook::Observer> g_observer { nullptr };
std::atomic<uint64_t> g_threadArrivals { 0 };

struct Tls
{
    uint64_t state = 0;
    bool init = false;
};
thread_local Tls t_tls;

inline uint64_t next(uint64_t &s)
{
    // splitmix64
    uint64_t z = (s += 0x9e3779b97f4a7c15ULL);
    z = (z ^ (z >> 30)) * 0xbf58476d1ce4e5b9ULL;
    z = (z ^ (z >> 27)) * 0x94d049bb133111ebULL;
    return z ^ (z >> 31);
}

int indexOf(const char *p)
{
    for (int i = 0; i < kN - 1; ++i)
        if (strcmp(kNames[i], p) == 0) return i;
    return kN - 1;
}

void spinFor(long us)
{
    auto end = std::chrono::steady_clock::now() + std::chrono::microseconds(us);
    while (std::chrono::steady_clock::now() < end) { }
}

} // namespace

namespace vhook {

void configure(uint64_t seed, int pmYield, int pmSpin, int pmSleep, const char *prefix)
{
    g_seed = seed;
    g_pmYield = pmYield;
    g_pmSpin = pmSpin;
    g_pmSleep = pmSleep;
    strncpy(g_prefix, prefix ? prefix : "", sizeof(g_prefix) - 1);
}

void configureFromString(const char *spec)
{
    if (!spec || !*spec) return;
    unsigned long long seed = 0;
    int y = 0, s = 0, sl = 0;
    char pre[32] = "";
    sscanf(spec, "%llu:%d:%d:%d:%31s", &seed, &y, &s, &sl, pre);
    configure(seed, y, s, sl, pre);
}

void setObserver(Observer o)
{
    g_observer = o;
}

uint64_t count(const char *point)
{
    return g_counts[indexOf(point)].load();
}
uint64_t totalPoints()
{
    return g_total.load();
}
uint64_t noiseApplied()
{
    return g_noise.load();
}

} // namespace vhook

extern "C" void qtlogger_verif_point(const char *point, const void *subject)
{
    const int idx = indexOf(point);
    g_counts[idx].fetch_add(1, std::memory_order_relaxed);
    g_total.fetch_add(1, std::memory_order_relaxed);

#ifdef VHOOK_TSAN
    // Qt's postEvent/deliver pair is synchronised inside the (uninstrumented) library.
    if (idx == 6 /* oth.post */) __tsan_release(const_cast<void *>(subject));
    if (idx == 8 /* oth.deliver */) __tsan_acquire(const_cast<void *>(subject));
#endif

    if (auto o = g_observer.load(std::memory_order_acquire)) o(point, subject);

    const int py = g_pmYield.load(std::memory_order_relaxed), ps = g_pmSpin.load(std::memory_order_relaxed),
              pl = g_pmSleep.load(std::memory_order_relaxed);
    if (py + ps + pl == 0) return;
    if (g_prefix[0] && strncmp(point, g_prefix, strlen(g_prefix)) != 0) return;
    if (!t_tls.init) {
        t_tls.init = true;
        t_tls.state = g_seed.load() * 0x2545F4914F6CDD1DULL + g_threadArrivals.fetch_add(1) * 0x9E3779B97F4A7C15ULL + 1;
    }
    const uint64_t r = next(t_tls.state);
    const int roll = int(r % 1000);
    const uint64_t mag = (r >> 20);
    if (roll < py) {
        g_noise.fetch_add(1, std::memory_order_relaxed);
        sched_yield();
    } else if (roll < py + ps) {
        g_noise.fetch_add(1, std::memory_order_relaxed);
        spinFor(1 + long(mag % 200));
    } else if (roll < py + ps + pl) {
        g_noise.fetch_add(1, std::memory_order_relaxed);
        timespec ts { 0, long(50 + mag % 450) * 1000 };
        nanosleep(&ts, nullptr);
    }
}
