"""C07 — no log file outgrows the size limit; records are never split."""
from .. import rotcheck

LEVEL = "exploration"
PROFILE = {"L_choices": [1, 2, 7, 20, 64, 1000, 16384, 65536], "N_choices": [-1, 0, 2, 3, 5, 12], "p_day": 0.05, "p_restart": 0.07,
           "p_foreign": 0.0, "autoobs_choices": [1, 1, 2], "marathon_p": 0.012}


def run(ctx):
    def v(a):
        return a.stats["rotations"] >= 2 and a.stats["records"] >= 5
    # framing (a record lies in one file) is part of C07's statement too: C05's framing keys are mirrored
    return rotcheck.run_property(ctx, "C07", PROFILE, quick=400, thorough=15000, nontrivial=v,
                                 rule="record sizes drawn around the limit (L-2..L+2, 0, multi-byte); non-trivial = >= 2 rotations and >= 5 records",
                                 mirror={"C05:framing-rotated": "C07:record-split", "C05:framing-active": "C07:record-split"})
