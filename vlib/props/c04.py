"""C04 — stopping asynchronous logging drains every accepted message and terminates.

One child process (drv_app shutdown) per scenario: shutdown path x backlog x sink delay x racing
producers x post-stop messages x configuration front-end x hook noise.  The child appends ticketed
events (C call, A accepted=call returned, D delivered, S/E stop begin/end, M move, X producer
stopped on its own) to a file with one write(2) each; the parent watches the file for progress,
kills and back-traces a child that stops making progress, and checks the history offline.
Move/reset cycles additionally run under ThreadSanitizer and ASan/UBSan."""
import json
import os
import random
import shutil
import signal
import subprocess
import time

from .. import build, core, tsan

LEVEL = "exploration"
NO_PROGRESS_S = 20.0   # nothing at all observed for this long outside a stop
IN_STOP_S = 25.0       # a stop open this long after the last delivery of what it found pending (or other control event)
EXIT_PATHS = ("P3", "P4", "P5", "P3C", "P3T", "P3O")


def scen(path, backlog=0, delay=0, racers=0, post=0, cfg="fluent", cycles=1, noise="", pause=None, budget=None, flavour="plain"):
    if pause is None:
        # fair producers: aggregate production rate <= 25 % of the sink's service rate
        pause = max(40, 4 * delay * max(1, racers))
    return {"path": path, "backlog": backlog, "delay_us": delay, "racers": racers, "post": post, "cfg": cfg, "cycles": cycles,
            "noise": noise, "racer_pause_us": pause, "racer_budget": budget if budget is not None else 2000000000, "flavour": flavour}


def quick_scenarios(rnd):
    S = []
    for cfg in ("fluent", "oneline", "ini"):
        S.append(scen("P1", 200, 50, 1, 3, cfg))
        S.append(scen("P2", 300, 0, 2, 3, cfg))
    for backlog, delay in ((0, 0), (1, 2000), (10, 50), (1000, 50), (1000, 2000), (20000, 0), (20000, 50)):
        S.append(scen("P1", backlog, delay, rnd.choice([0, 1, 4]), 2))
        S.append(scen("P2", backlog, delay, rnd.choice([0, 1, 4]), 2, noise="%d:200:100:100:oth.reset" % rnd.randint(1, 9999)))
        S.append(scen("P6", backlog, delay, rnd.choice([0, 2]), 0, cycles=2))
        S.append(scen("P6L", backlog, delay, rnd.choice([0, 2]), 0))
    for path in EXIT_PATHS:
        for backlog, delay in ((0, 0), (10, 50), (1000, 50), (300, 2000)):
            S.append(scen(path, backlog, delay, rnd.choice([0, 2]), 0, cfg=rnd.choice(["fluent", "oneline", "ini"])))
    # exit with the application object still alive and a backlog that needs formatters (static destruction overlaps the drain)
    for path in ("P4", "P5"):
        for cfg in ("json", "pattern", "oneline"):
            S.append(scen(path, 400, 0, 2, 0, cfg=cfg))
    S.append(scen("P3", 400, 0, 2, 0, cfg="json"))
    S.append(scen("P3", 400, 0, 2, 0, cfg="oneline"))
    for cyc, backlog, delay, racers in ((20, 10, 0, 2), (10, 200, 50, 4), (6, 50, 2000, 1), (40, 0, 0, 3)):
        S.append(scen("P8", backlog, delay, racers, 2, cycles=cyc, noise="%d:150:150:50:oth" % rnd.randint(1, 9999)))
        S.append(scen("P2", backlog, delay, racers, 2, cycles=cyc))
    # return without exec() after earlier move/reset cycles, with a second application object, with a sibling handler stopped earlier
    for path in ("P3C", "P3T", "P3O"):
        S.append(scen(path, 200, 50, 0, 0, cycles=2, cfg="fluent"))
        S.append(scen(path, 50, 500, 2 if path == "P3C" else 0, 0, cycles=1, cfg=rnd.choice(["fluent", "ini"])))
    # two threads stop the same logger at the same moment
    S.append(scen("P9", 200, 50, 1, 2, cycles=5))
    S.append(scen("P9", 0, 0, 2, 2, cycles=30, noise="%d:200:100:100:oth.reset" % rnd.randint(1, 9999)))
    S.append(scen("P9", 50, 500, 0, 2, cycles=3))
    # one message that takes longer than the 3 s the stop grants the thread to finish after quit()
    S.append(scen("P2", 1, 3600000, 0, 1))
    # producers faster than the sink while the stop is in progress (bounded by a budget)
    S.append(scen("P2", 100, 50, 2, 2, pause=0, budget=40000))
    S.append(scen("P1", 100, 50, 2, 2, pause=0, budget=40000))
    S.append(scen("P8", 100, 20, 2, 2, cycles=2, pause=0, budget=60000))
    # sanitizer flavours: in-process cycles only
    for fl in ("tsan", "san"):
        S.append(scen("P8", 20, 0, 3, 2, cycles=25, noise="%d:150:150:50:oth" % rnd.randint(1, 9999), flavour=fl))
        S.append(scen("P2", 100, 50, 2, 2, cycles=10, flavour=fl))
        S.append(scen("P6", 100, 20, 2, 0, cycles=10, flavour=fl))
        S.append(scen("P9", 100, 20, 2, 2, cycles=10, flavour=fl))
    return S


def random_scenario(rnd):
    path = rnd.choice(["P1", "P2", "P2", "P3", "P4", "P5", "P6", "P6L", "P8", "P8", "P9", "P3C", "P3T", "P3O"])
    delay = rnd.choice([0, 0, 20, 50, 500, 2000])
    backlog = rnd.choice([0, 1, 10, 100, 1000, 20000])
    while backlog * max(delay, 1) > 6000000:
        backlog //= 10
    racers = rnd.choice([0, 1, 2, 4])
    cycles = rnd.choice([1, 2, 5, 20, 60]) if path in ("P2", "P8", "P6", "P9", "P3C") else 1
    while cycles * backlog * max(delay, 1) > 8000000 and cycles > 1:
        cycles //= 2
    noise = rnd.choice(["", "", "%d:200:100:100:oth.reset" % rnd.randint(1, 99999), "%d:150:150:50:oth" % rnd.randint(1, 99999),
                        "%d:50:300:0:logger" % rnd.randint(1, 99999)])
    fl = "plain"
    if path in ("P2", "P8", "P6", "P9") and rnd.random() < 0.35:
        fl = rnd.choice(["tsan", "san"])
    flood = rnd.random() < 0.08 and path in ("P1", "P2", "P8") and racers > 0
    return scen(path, backlog, delay, racers, rnd.choice([0, 2, 5]), rnd.choice(["fluent", "fluent", "oneline", "ini", "pattern", "json"]), cycles, noise,
                pause=0 if flood else None, budget=rnd.choice([20000, 60000]) if flood else None, flavour=fl)


# ------------------------------------------------------------------------------------------------

def run_child(ctx, sc, idx):
    exe = build.driver(sc["flavour"], "drv_app")
    d = os.path.join(ctx.tmp, "s%d" % idx)
    os.makedirs(os.path.join(d, "logs"))
    evf = os.path.join(d, "ev")
    env = core.base_env(d)
    env["VERIF_NOISE"] = sc["noise"]
    env["VERIF_RACER_PAUSE_US"] = str(sc["racer_pause_us"])
    env["VERIF_RACER_BUDGET"] = str(sc["racer_budget"])
    tsan_prefix = os.path.join(d, "tsan")
    if sc["flavour"] == "tsan":
        env["TSAN_OPTIONS"] = tsan.options(tsan_prefix)
    argv = [exe, "shutdown", evf, sc["path"], str(sc["backlog"]), str(sc["delay_us"]), str(sc["racers"]), str(sc["post"]), sc["cfg"],
            str(sc["cycles"]), os.path.join(d, "logs")]
    errf = open(os.path.join(d, "stderr"), "wb")
    p = subprocess.Popen(argv, env=env, stdout=subprocess.DEVNULL, stderr=errf)
    offset, last_change = 0, time.time()
    t_start = last_change
    last_control, open_stops = last_change, 0
    status = {"hung": False, "stacks": ""}
    pending, early, pre = set(), set(), set()   # accepted and undelivered; delivered before its 'A' line; pending when the open stop began
    while True:
        try:
            p.wait(timeout=0.25)
            break
        except subprocess.TimeoutExpired:
            pass
        # progress = a control event (stop begin/end, move, marker, producer finished), or - outside a stop - any delivery, or - while a
        # stop is open - the delivery of a message that was pending when the stop began.  Producers that merely keep calling do not
        # count, and neither do deliveries of what was accepted after the stop began: "bounded time" is bounded by the work the stop
        # found, so a stop that is still open IN_STOP_S after the last such step does not return in bounded time, while one that is slowly
        # working through its own backlog on a loaded machine is making progress.
        control = delivered = False
        try:
            with open(evf, "rb") as f:
                f.seek(offset)
                chunk = f.read()
            nl = chunk.rfind(b"\n")
            if nl >= 0:
                offset += nl + 1
                for line in chunk[:nl].split(b"\n"):
                    k = line[:1]
                    if k == b"D":
                        try:
                            v = int(line.split()[2])
                        except (IndexError, ValueError):
                            continue
                        if v in pending:
                            pending.discard(v)
                        else:
                            early.add(v)
                        if open_stops <= 0:
                            delivered = True
                        elif v in pre:
                            pre.discard(v)
                            control = True
                    elif k == b"A":
                        try:
                            v = int(line.split()[2])
                        except (IndexError, ValueError):
                            continue
                        if v in early:
                            early.discard(v)
                        else:
                            pending.add(v)
                    elif k == b"S":
                        if open_stops <= 0:
                            pre = set(pending)
                        open_stops += 1
                        control = True
                    elif k == b"E":
                        open_stops -= 1
                        control = True
                    elif k in (b"M", b"#", b"X"):
                        control = True
                    elif k == b"C":
                        pass
        except OSError:
            pass
        now = time.time()
        if control:
            last_control = last_change = now
        elif delivered:
            last_change = now
        if offset == 0 and now - t_start < 300:
            # nothing written yet: the child is still starting up (loader, static initialisation under a sanitizer on a loaded machine);
            # that is not "no progress" - after 300 s it is cut off and, having produced no event, counts as inconclusive
            last_control = last_change = now
        stuck = (now - last_change > NO_PROGRESS_S) if open_stops <= 0 else (now - last_control > IN_STOP_S)
        if stuck:
            status["hung"] = True
            status["open_stop_cutoff"] = open_stops > 0
            try:
                g = subprocess.run(["gdb", "-p", str(p.pid), "-batch", "-ex", "thread apply all bt 12"], stdout=subprocess.PIPE,
                                   stderr=subprocess.DEVNULL, timeout=60, text=True, errors="replace")
                status["stacks"] = "\n".join(l for l in g.stdout.splitlines() if l.startswith("#") or l.startswith("Thread"))[:5000]
            except Exception as e:  # noqa
                status["stacks"] = "gdb failed: %s" % e
            p.send_signal(signal.SIGKILL)
            p.wait()
            break
    errf.close()
    status["rc"] = p.returncode
    status["stderr"] = open(os.path.join(d, "stderr"), errors="replace").read()[-3000:]
    events = []
    hooks = ""
    try:
        for line in open(evf):
            parts = line.split(None, 2)
            if len(parts) < 3:
                continue
            if parts[0] == "#":
                events.append(("#", int(parts[1]), parts[2].strip()))
                if parts[2].startswith("hooks"):
                    hooks = parts[2].strip()
            else:
                events.append((parts[0], int(parts[1]), int(parts[2])))
    except OSError:
        pass
    status["hooks"] = hooks
    if sc["flavour"] == "tsan":
        status["tsan"] = tsan.collect(tsan_prefix, "drv_app")
    shutil.rmtree(d, ignore_errors=True)
    return events, status


def judge(sc, events, status):
    """-> (list of (key, what), stats)"""
    out = []
    path = sc["path"]
    C, A, D = {}, {}, {}
    dup = 0
    foreign = 0
    stops = {}   # cycle -> [S ticket, E ticket]
    moves = []
    X = []
    main_return = None
    for kind, t, v in events:
        if kind == "C":
            C[v] = t
        elif kind == "A":
            A[v] = t
        elif kind == "D":
            if v < 0:
                foreign += 1   # a message the harness did not send (Qt's own warnings also go through the installed handler)
                continue
            if v in D:
                dup += 1
                out.append(("C04:delivered-twice:path=%s" % path, "id %d delivered at tickets %d and %d" % (v, D[v], t)))
            D[v] = t
        elif kind == "S":
            stops.setdefault(v, [None, None])[0] = t
        elif kind == "E":
            stops.setdefault(v, [None, None])[1] = t
        elif kind == "M":
            moves.append(t)
        elif kind == "X":
            X.append(t)
        elif kind == "#" and v == "main-return":
            main_return = t
    for v in D:
        if v not in C:
            out.append(("C04:spurious-delivery:path=%s" % path, "id %d delivered but never sent" % v))
    stats = {"accepted": len(A), "delivered": len(D), "stops": len(stops), "sync_after_stop": 0, "during_stop": 0, "foreign": foreign}
    # per-producer delivery order
    lastp = {}
    for v, t in sorted(D.items(), key=lambda kv: kv[1]):
        pr, seq = divmod(v, 1000000000)
        if pr in lastp and lastp[pr] > seq:
            out.append(("C04:reordered:path=%s" % path, "producer %d: seq %d delivered after %d" % (pr, seq, lastp[pr])))
            break
        lastp[pr] = seq
    # hang
    if status["hung"]:
        open_stop = [c for c, (s, e) in stops.items() if s is not None and e is None]
        phase = "in-stop" if open_stop else ("at-exit" if main_return is not None else "running")
        undel = len([v for v in A if v not in D])
        if open_stop and status.get("open_stop_cutoff") and sc["racers"]:
            # the worker is alive and delivering and the stop has been open for IN_STOP_S: if the backlog is larger now than when the stop
            # began, the stop kept queueing what the producers logged while it was in progress, faster than the sink delivers - the same
            # defect as a stop that returns only after the producers ceased, cut off before it got there (whether or not the producers
            # have used up their budget by now: what keeps the stop open was accepted after it began)
            s0 = min(stops[c][0] for c in open_stop)
            pending_at_s = len([v for v, ta in A.items() if ta < s0 and (v not in D or D[v] > s0)])
            after = len([v for v, td in D.items() if td > s0])
            if undel > 2 * (pending_at_s + 50) and after >= 100:
                out.append(("C04:stop-starved-by-producers:producers-outpace-sink",
                            "stop open for more than %.0f s with the worker delivering (%d deliveries since it began; %d of %d producers "
                            "still logging): backlog %d at its start, %d now" % (IN_STOP_S, after, sc["racers"] - len(X), sc["racers"], pending_at_s, undel)))
                return out, stats
        out.append(("C04:no-progress:path=%s:phase=%s:%s" % (path, phase, "backlog>0" if undel else "backlog=0"),
                    "child made no progress for %.0f s (%d accepted messages undelivered); stacks:\n%s"
                    % (IN_STOP_S if status.get("open_stop_cutoff") else NO_PROGRESS_S, undel, status["stacks"][:2500])))
        return out, stats
    # drained at each stop
    for c, (s, e) in sorted(stops.items()):
        if s is None or e is None:
            continue
        late = [v for v, ta in A.items() if ta < s and (v not in D or D[v] > e)]
        if late:
            out.append(("C04:stop-returned-before-drain:path=%s" % path,
                        "stop #%d [%d,%d]: %d messages accepted before it are undelivered when it returns (e.g. id %d accepted@%d delivered@%s)"
                        % (c, s, e, len(late), late[0], A[late[0]], D.get(late[0]))))
        during = [v for v, ta in A.items() if s < ta < e]
        stats["during_stop"] += len(during)
        pending_at_s = len([v for v, ta in A.items() if ta < s and (v not in D or D[v] > s)])
        if sc["racers"] and len(X) >= sc["racers"] and all(x < e for x in X) and len(during) >= 20 * (pending_at_s + sc["racers"] + 50):
            # which of the two: did the backlog grow while the stop was open (the producers were faster than the sink, whatever pause they
            # were configured with - a loaded machine or a sanitizer build slows the sink), or did the sink keep up and the stop still wait?
            seq = sorted([(ta, 1) for v, ta in A.items() if s < ta < e] + [(D[v], -1) for v in A if v in D and s < D[v] < e])
            cur = peak = pending_at_s
            for _t, dlt in seq:
                cur += dlt
                peak = max(peak, cur)
            outpaced = sc["racer_pause_us"] == 0 or peak > 2 * (pending_at_s + 50)
            out.append(("C04:stop-starved-by-producers:%s" % ("producers-outpace-sink" if outpaced else "fair-producers"),
                        "stop #%d returned only after every racing producer had stopped on its own: %d messages were accepted while it "
                        "was in progress (pending at its start: %d)" % (c, len(during), pending_at_s)))
        # synchronous delivery after the stop (until the next move to a thread)
        nxt = min([m for m in moves if m > e], default=None)
        for v, tc in C.items():
            if tc > e and (nxt is None or (v in A and A[v] < nxt)) and v in A:
                if sc["path"] in ("P6", "P6L"):
                    continue
                stats["sync_after_stop"] += 1
                if v not in D or not (tc < D[v] < A[v]):
                    out.append(("C04:post-stop-not-synchronous:path=%s" % path,
                                "id %d: call [%d,%d] after stop #%d ended at %d, delivered at %s" % (v, tc, A[v], c, e, D.get(v))))
                    break
    # everything accepted is delivered by process end
    lost = [v for v in A if v not in D]
    if lost:
        out.append(("C04:lost-at-exit:path=%s" % path, "%d of %d accepted messages never delivered (e.g. id %d); rc=%s"
                    % (len(lost), len(A), lost[0], status["rc"])))
    return out, stats


def run(ctx):
    rnd = random.Random(ctx.seed * 4241 + 4)
    if ctx.replay:
        scs = [json.load(open(ctx.replay))["case"]]
    elif ctx.quick:
        scs = quick_scenarios(rnd)
    else:
        scs = quick_scenarios(rnd) + [random_scenario(rnd) for _ in range(1500)]
    for fl in sorted({s["flavour"] for s in scs}):
        build.driver(fl, "drv_app")
    from concurrent.futures import ThreadPoolExecutor
    jobs = max(2, (os.cpu_count() or 4) // 2)
    with ThreadPoolExecutor(max_workers=jobs) as ex:
        results = list(ex.map(lambda t: run_child(ctx, t[1], t[0]), enumerate(scs)))
    distinct = set()
    evals = 0
    totals = {"accepted": 0, "delivered": 0, "stops": 0, "sync_after_stop": 0, "during_stop": 0, "foreign": 0, "tsan_reports": 0, "tsan_env_noise": 0}
    samples = []
    bypath = {}
    harness_only = []
    for sc, (events, status) in zip(scs, results):
        if not events:
            raise core.Inconclusive("child produced no events: %s :: %s" % (sc, status["stderr"][-500:]))
        evals += 1
        found, stats = judge(sc, events, status)
        rc = status["rc"]
        if not status["hung"] and rc != 0:
            kind = core.sanitizer_kind(status["stderr"]) or "rc=%s" % rc
            returned = any(e[0] == "#" and e[2] == "main-return" for e in events)
            if sc["path"] in ("P4", "P5") and returned and rc in (-11, -6, -7, -4) and sc["flavour"] == "plain":
                # died while the Logger singleton drained its backlog from its destructor, i.e. during static destruction; the
                # undelivered remainder is a consequence of the death, not a second finding
                found = [f for f in found if not f[0].startswith("C04:lost-at-exit")]
                found.append(("C04:drain-during-static-destruction:path=%s" % sc["path"],
                              "child died with signal %d after main() had returned / exit() was called, while the own thread was still "
                              "delivering the backlog (cfg=%s)" % (-rc, sc["cfg"])))
            else:
                found.append(("C04:child-died:%s:path=%s" % (kind, sc["path"]), status["stderr"][-1500:]))
        if "tsan" in status:
            viol, noise, harness, total = status["tsan"]
            totals["tsan_reports"] += total
            totals["tsan_env_noise"] += noise
            for k, raw in viol.items():
                found.append(("C04:" + k, raw[:2500]))
            if harness:
                harness_only.append(list(harness.values())[0][:1500])
        for key, what in found:
            ctx.violation(key, "%s :: %s" % ({k: v for k, v in sc.items() if k != "racer_budget"}, what), sc)
        for k in ("accepted", "delivered", "stops", "sync_after_stop", "during_stop", "foreign"):
            totals[k] += stats[k]
        bypath[sc["path"] + "/" + sc["flavour"]] = bypath.get(sc["path"] + "/" + sc["flavour"], 0) + 1
        if stats["accepted"] > 0:
            distinct.add((sc["path"], sc["backlog"], sc["delay_us"], sc["racers"], sc["cfg"], sc["cycles"], bool(sc["noise"]), sc["flavour"],
                          sc["racer_pause_us"] == 0))
        if len(samples) < 4 and stats["stops"]:
            samples.append({"scenario": sc, "stats": stats, "hooks": status["hooks"], "first_events": [list(e) for e in events[:12]]})
    if harness_only and not ctx.fresh_violations():
        # a race report whose stacks show harness frames only says nothing about the library; it voids the run unless the run already has
        # a verdict of its own (with the library's locks broken the harness' recorders, which rely on them, race as well)
        raise core.Inconclusive("TSan report in harness code only: %s" % harness_only[0])
    cov = {
        "evaluations": evals,
        "distinct_nontrivial": len(distinct),
        "rule": "one child process per scenario (shutdown path P1 aboutToQuit, P2 explicit reset, P3 return without exec, P4 exit(), P5 leaked "
                "application, P6/P6L non-singleton destruction, P8 move/reset cycles, P9 two concurrent stops, P3C/P3T/P3O return without exec after earlier cycles / with a second application / with a sibling handler stopped earlier) x backlog x sink delay x racing producers x configuration "
                "front-end x hook noise x {plain, tsan, san}; non-trivial = at least one message accepted; distinct by the scenario tuple",
        "samples": samples,
        "scenarios_by_path_and_flavour": bypath,
        "totals": totals,
        "excluded": "moveToOwnThread() without any QCoreApplication: Qt forbids an event loop there",
    }
    return ctx.finish(cov, ["termination is decided by progress of the event file (no new event for %.0f s while alive), never by a wall-clock "
                            "deadline on the run" % NO_PROGRESS_S, "QT_NO_GLIB=1"], min_evals=1 if ctx.replay else 30)
