"""C16 — built-in filters and counters follow their decision rules on every sequence."""
import json
import random
import re
import unicodedata

from .. import fmtdrv
from ..core import hexs
from ..gen import TYPES, uni_text

LEVEL = "exploration"

# expressions on which PCRE (QRegularExpression defaults) and Python re agree for the generated texts
REGEX_MENU = [
    r"error", r"^start", r"end$", r"^$", r"[0-9]+", r"(foo|bar)baz", r"a{2,3}b", r"^[A-Z][a-z]+ [0-9]{1,3}$",
    r"colou?r", r"\.log$", r"^(?!skip)", r"x.y", r"[^a-z]", r"(ab)+c", r"\[tag\]", r"^.{0,5}$", r"a|b|c",
    r"(?:warn|err)(?:ing|or)?:", r"\\", r"\$[0-9]+\.[0-9]{2}",
]
WORDS = ["error", "start", "end", "foobaz", "barbaz", "aab", "aaab", "Hello 42", "color", "colour", "a.log", "skip it",
         "x-y", "xy", "ABC", "ababc", "[tag] msg", "12345", "123456", "warning: x", "error:", "\\", "$12.50", "$1.5",
         "", "start end", "Error", "ERROR", "a", "b", "z"]


def ref_level(minlevel, seq):
    return [1 if t >= minlevel else 0 for (_, t, _) in seq]


def ref_dup(seq):
    out = []
    last = ""
    for _, _, text in seq:
        t = text or ""
        if t == last:
            out.append(0)
        else:
            last = t
            out.append(1)
    return out


def ref_regexp(rx, seq):
    c = re.compile(rx)
    return [1 if c.search(text or "") else 0 for (_, _, text) in seq]


def variants(rnd, base):
    """texts differing only in case / whitespace / normalisation"""
    r = rnd.random()
    if r < 0.2:
        return base.swapcase()
    if r < 0.4:
        return base + rnd.choice([" ", "\t", " ", "\n"])
    if r < 0.55:
        return unicodedata.normalize("NFD", base)
    if r < 0.7:
        return unicodedata.normalize("NFC", base)
    if r < 0.8:
        return " " + base
    return base


def collide(rnd, t):
    """a different text of the same length and the same 31-polynomial hash (Qt 5's qHash(QString) without hardware CRC, Java's
    String.hashCode): "Aa" <-> "BB"; or None"""
    idx = [i for i in range(len(t) - 1) if 0x20 <= ord(t[i + 1]) - 31 < 0x7f and 0x20 <= ord(t[i]) + 1 < 0x7f]
    if not idx:
        return None
    i = rnd.choice(idx)
    return t[:i] + chr(ord(t[i]) + 1) + chr(ord(t[i + 1]) - 31) + t[i + 2:]


def gen_texts(rnd, n, for_regex=False):
    pool = []
    if rnd.random() < 0.12:
        # neighbours that a short-cut comparison takes for one another: same length and same hash ...
        w = rnd.choice([x for x in WORDS if len(x) >= 2] + ["Aa", "aa", "user=Bob", "b "])
        c = collide(rnd, w)
        if c is not None:
            pool.extend([w, c] + ([collide(rnd, c) or c] if rnd.random() < 0.5 else []))
    if rnd.random() < 0.08:
        # ... or the same length and the same first few thousand characters (dumps with a common header)
        L = rnd.choice([255, 256, 1023, 1024, 4094, 4095, 4096, 4097, 5000, 9000, 70000])
        head = rnd.choice(["x", "error ", "ab", "Hello 42 "]) * (L // 2 + 1)
        head = head[:L]
        pool.extend([head + tail for tail in rnd.sample(["a1", "b2", "a2", "1a", "  ", "aa", "ab"], 3)])
        pool.append(head[:-1] + "!" + "a1")
    for _ in range(rnd.randint(1, 5)):
        if for_regex or rnd.random() < 0.4:
            pool.append(rnd.choice(WORDS))
        else:
            t = uni_text(rnd, 12)
            if for_regex:
                t = t.replace("\n", " ").replace("\r", " ")
            pool.append(t)
    if not for_regex:
        pool.append("café Å")
    out = []
    while len(out) < n:
        r = rnd.random()
        if r < 0.35 and out:
            out.extend([out[-1]] * rnd.randint(1, 4))      # runs
        elif r < 0.5 and len(pool) >= 2:
            a, b = rnd.sample(pool, 2)
            out.extend([a, b] * rnd.randint(1, 3))          # alternations
        elif r < 0.6:
            out.append(rnd.choice(["", None]))              # empty / null
        elif r < 0.8 and out and out[-1] and not for_regex:
            out.append(variants(rnd, out[-1]))
        else:
            out.append(rnd.choice(pool))
    return out[:n]


def gen_case(rnd):
    kind = rnd.choice(["level", "dup", "regexp", "seq", "fluent-level", "fluent-dup", "fluent-regexp", "fluent-seq",
                       "regexpq", "seqdefault", "dup", "seq", "seqtree"])
    if kind == "seqtree":
        # counters that meet a message already carrying their attribute: two counters of the same name (outer + nested behind a
        # level filter), one instance placed in the outer and in a nested pipeline, attribute preset by the caller
        n = rnd.randint(1, 30)
        param = "%d:%d:%d" % (rnd.randrange(3), rnd.randrange(5), rnd.randrange(2))
        texts = gen_texts(rnd, n)
        return kind, param, 1, [(0, rnd.randrange(5), t) for t in texts]
    base = kind.replace("fluent-", "")
    npipes = 1 if kind.startswith("fluent") else rnd.choice([1, 1, 2, 3])
    n = rnd.randint(1, 400) if rnd.random() < 0.15 else rnd.randint(1, 40)
    param = "-"
    if base == "level":
        param = str(rnd.randrange(5))
    elif base in ("regexp", "regexpq"):
        param = rnd.choice(REGEX_MENU)
    elif base == "seq":
        param = rnd.choice(["seq_number", "n", "my seq", "é"])
    texts = gen_texts(rnd, n, for_regex=base.startswith("regexp"))
    seq = [(rnd.randrange(npipes), rnd.randrange(5), t) for t in texts]
    return kind, param, npipes, seq


def case_line(i, c):
    kind, param, npipes, seq = c
    base = kind.replace("fluent-", "")
    p = param
    if base in ("regexp", "regexpq", "seq"):
        p = hexs(param)
    return "Q %s %s %s %d %d %s" % (i, kind, p, npipes, len(seq),
                                    " ".join("%d %d %s" % (pi, t, "~" if tx is None else hexs(tx)) for pi, t, tx in seq))


def expected(c):
    kind, param, npipes, seq = c
    base = kind.replace("fluent-", "")
    if base == "level":
        return [str(v) for v in ref_level(int(param), seq)]
    if base == "dup":
        return [str(v) for v in ref_dup(seq)]
    if base in ("regexp", "regexpq"):
        return [str(v) for v in ref_regexp(param, seq)]
    if base == "seqtree":
        variant, level, scoped = (int(x) for x in param.split(":"))
        out = []
        nb = 0
        shared = 0
        for i, (_, t, _) in enumerate(seq):
            if variant == 0:
                # outer counter numbers every message; the nested one numbers those the level filter lets through; the nested
                # pipeline built by pipeline() is scoped, so the outer sink sees the outer number again
                if t >= level:
                    out.append("b1:%da1:%d" % (nb, i))
                    nb += 1
                else:
                    out.append("b0a1:%d" % i)
            elif variant == 1:
                first, second = shared, shared + 1
                shared += 2
                out.append("b1:%da1:%d" % (second, first if scoped else second))
            else:
                out.append("b0a1:%d" % i)
        return out
    # seq / seqdefault: k-th call returns k-1 (the sink always sees it)
    return ["1:%d" % k for k in range(len(seq))]


def run(ctx):
    if ctx.replay:
        rep = json.load(open(ctx.replay))["case"]
        cases = [(rep["kind"], rep["param"], rep["npipes"], [tuple(x) for x in rep["seq"]])]
    else:
        rnd = random.Random(ctx.seed * 15485863 + 16)
        cases = [gen_case(rnd) for _ in range(ctx.pick(20000, 500000))]
    lines = [case_line(i, c) for i, c in enumerate(cases)]
    results, crashes = fmtdrv.run_cases(ctx, "san", lines, chunk=500)
    crashed = set()
    for cid, line, kind, err in crashes:
        crashed.add(cid)
        if kind == "skipped":
            continue
        c = cases[int(cid)]
        ctx.violation("C16:crash:" + kind, "%s :: %s" % (c[0], err[-600:]),
                      {"kind": c[0], "param": c[1], "npipes": c[2], "seq": c[3]})
    msgs = 0
    distinct = set()
    samples = []
    kinds = {}
    for i, c in enumerate(cases):
        if str(i) in crashed:
            continue
        got = results[str(i)]
        exp = expected(c)
        msgs += len(exp)
        kinds[c[0]] = kinds.get(c[0], 0) + 1
        if got != exp:
            j = next(k for k in range(len(exp)) if k >= len(got) or got[k] != exp[k])
            base = c[0].replace("fluent-", "")
            ctx.violation("C16:%s" % base, "kind=%s param=%r pipes=%d message #%d %r: expected %s got %s (prev text %r)"
                          % (c[0], c[1], c[2], j, c[3][j], exp[j], got[j] if j < len(got) else None,
                             c[3][j - 1][2] if j else None),
                          {"kind": c[0], "param": c[1], "npipes": c[2], "seq": c[3][:j + 1]})
        passed = sum(1 for e in exp if e[0] == "1")
        nontrivial = len(exp) >= 3 and (c[0].endswith("seq") or c[0] in ("seqdefault", "seqtree") or 0 < passed < len(exp))
        if nontrivial:
            distinct.add((c[0], c[1], c[2], tuple(exp)))
        if len(samples) < 4 and nontrivial and i % 211 == 0:
            samples.append({"kind": c[0], "param": c[1], "pipelines_sharing_instance": c[2],
                            "messages": [[p, TYPES[t], tx] for p, t, tx in c[3][:6]], "verdicts": exp[:6]})
    cov = {
        "evaluations": len(cases),
        "distinct_nontrivial": len(distinct),
        "rule": "sequences of 1..400 messages (runs, alternations, null/empty texts, case/whitespace/NFC-NFD variants, all types) "
                "fed to LevelFilter / DuplicateFilter / RegExpFilter / SeqNumberAttr, directly, through the fluent API, and with one "
                "instance shared by 2-3 pipelines fed alternately, and counters inside trees where the message already carries the counter's "
                "attribute (same-named outer + nested counters, one instance in outer and nested pipeline, attribute preset by the caller); verdict vector compared with reference automata; non-trivial = "
                ">= 3 messages and (for filters) both verdicts occur; distinct by (kind, parameter, sharing, verdict vector)",
        "samples": samples or [{"kind": cases[0][0]}],
        "messages": msgs, "cases_by_kind": kinds,
    }
    return ctx.finish(cov, ["regular expressions drawn from a fixed menu on which PCRE and Python re agree"],
                      min_evals=1 if ctx.replay else 1000)
