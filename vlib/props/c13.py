"""C13 — JSON output is always valid, complete and lossless; compact = one line."""
import datetime
import json
import random

from .. import fmtdrv
from ..core import unhexs
from ..gen import TYPES, uni_text, uni_char, enc_msg, rand_ctx_bytes, CATS, FILES, FUNCS, UInt, ULongLong, Float32, float32

LEVEL = "exploration"
BUILTIN = ["type", "line", "file", "function", "category", "message", "time", "threadId"]


def gen_value(rnd, depth=0):
    r = rnd.random()
    if depth >= 4 or r < 0.45:
        k = rnd.random()
        if k < 0.5:
            return uni_text(rnd, 20)
        if k < 0.62:
            return rnd.choice([0, 1, -1, 2 ** 53, -(2 ** 53), 2 ** 31, -(2 ** 31) - 1, rnd.randint(-2 ** 53, 2 ** 53),
                               rnd.randint(-1000, 1000)])
        if k < 0.7:
            # the same numbers held in the unsigned integer types of QVariant
            if rnd.random() < 0.5:
                return UInt(rnd.choice([0, 1, 2 ** 31 - 1, 2 ** 31, 2 ** 32 - 1, 3000000000, rnd.randint(0, 2 ** 32 - 1)]))
            return ULongLong(rnd.choice([0, 2 ** 32, 2 ** 53, rnd.randint(0, 2 ** 53)]))
        if k < 0.8:
            return rnd.random() < 0.5
        if k < 0.9:
            return rnd.randint(-10 ** 6, 10 ** 6) / 8.0
        if k < 0.94:
            # single-precision values: everyday ones and ones that need all 9 significant digits
            return float32(rnd.choice([0.1, 36.6, 1000.0, 999999.0, 1000001.0, 16777215.0, 1234.567, 3.4028234e38, 1.17549435e-38, -0.3,
                                       rnd.uniform(-1e6, 1e6), rnd.uniform(-1, 1), rnd.randint(-2 ** 24, 2 ** 24) + 0.5]))
        return None
    if r < 0.7:
        return [gen_value(rnd, depth + 1) for _ in range(rnd.randint(0, 4))]
    d = {}
    for _ in range(rnd.randint(0, 4)):
        d[uni_text(rnd, 6)] = gen_value(rnd, depth + 1)
    return d


def gen_name(rnd):
    while True:
        r = rnd.random()
        if r < 0.5:
            n = rnd.choice(["user", "seq_number", "appname", "host", "a", "Type", "msg", "line2", "time_ms", "x.y", "k-1"])
            n += rnd.choice(["", "", str(rnd.randint(0, 9))])
        else:
            n = uni_text(rnd, 8, empty_p=0.03)
        if n not in BUILTIN:
            return n


def gen_case(rnd):
    big = rnd.random() < 0.01
    text = uni_text(rnd, 40)
    if big:
        text = "".join(uni_char(rnd) for _ in range(65536))
    attrs = {}
    for _ in range(rnd.choice([0, 0, 1, 2, 3, 6])):
        attrs[gen_name(rnd)] = gen_value(rnd)
    m = {
        "type": rnd.randrange(5), "line": rnd.choice([0, 1, 42, 2 ** 31 - 1, rnd.randint(0, 99999)]),
        "file": rnd.choice([None, b""] + FILES) if rnd.random() < 0.6 else rand_ctx_bytes(rnd),
        "func": rnd.choice([None, b""] + FUNCS) if rnd.random() < 0.6 else rand_ctx_bytes(rnd, 60),
        "cat": rnd.choice(CATS) if rnd.random() < 0.7 else rand_ctx_bytes(rnd, 20),
        "text": text, "attrs": list(attrs.items()),
    }
    if rnd.random() < 0.03:
        m["cat"] = None
    compact = 1 if rnd.random() < 0.6 else 0
    # how the application obtains the formatter: direct construction, the fluent formatToJson(compact) of a pipeline (many
    # pipelines of both modes live in one driver process, in random order), or the shared default (indented) instance
    r = rnd.random()
    m["how"] = 0 if r < 0.4 else (3 if r < 0.6 else (1 if r < 0.92 or compact else 2))
    if rnd.random() < 0.1:
        # J3: the message is formatted twice - inside a scoped sub-pipeline that adds/overrides an attribute, and again after the scope
        names = [n for n, _ in m["attrs"]]
        m["how"] = 4
        m["scope_attr"] = (rnd.choice(names) if names and rnd.random() < 0.5 else gen_name(rnd), gen_value(rnd, 3))
    return compact, m


def deep_equal(exp, got):
    if exp is None:
        return got is None
    if isinstance(exp, bool) or isinstance(got, bool):
        return isinstance(exp, bool) and isinstance(got, bool) and exp == got
    if isinstance(exp, Float32):
        # recovered exactly = the same single-precision value, however many digits were printed
        return isinstance(got, (int, float)) and not isinstance(got, bool) and (exp == got or float32(got) == exp)
    if isinstance(exp, (int, float)):
        return isinstance(got, (int, float)) and not isinstance(got, bool) and exp == got
    if isinstance(exp, str):
        return isinstance(got, str) and exp == got
    if isinstance(exp, list):
        return isinstance(got, list) and len(exp) == len(got) and all(deep_equal(a, b) for a, b in zip(exp, got))
    if isinstance(exp, dict):
        return isinstance(got, dict) and set(exp) == set(got) and all(deep_equal(exp[k], got[k]) for k in exp)
    return False


def parse_time_ms(s):
    dt = datetime.datetime.fromisoformat(s.replace("Z", "+00:00"))
    if dt.tzinfo is None:
        dt = dt.replace(tzinfo=datetime.timezone.utc)  # TZ=UTC in the driver environment
    return int(round(dt.timestamp() * 1000))


def check_one(compact, m, toks):
    """returns list of (key, what)"""
    out = unhexs(toks[0])
    time_ms, thread_id = int(toks[1]), int(toks[2])
    bad = []
    try:
        obj, end = json.JSONDecoder().raw_decode(out)
    except ValueError as e:
        return [("C13:invalid-json", "parse error %s in %r" % (e, out[:200]))]
    if out[end:].strip(" \t\r\n") != "":
        bad.append(("C13:trailing-garbage", repr(out[end:end + 50])))
    if not isinstance(obj, dict):
        return [("C13:not-an-object", repr(out[:100]))]
    if compact and ("\n" in out or "\r" in out):
        bad.append(("C13:compact-linebreak", repr(out[:200])))
    attrs = dict(m["attrs"])
    want_keys = set(BUILTIN) | set(attrs)
    if set(obj) != want_keys:
        bad.append(("C13:keys", "missing %r extra %r" % (sorted(want_keys - set(obj)), sorted(set(obj) - want_keys))))
        return bad

    def ctx(b):
        return "" if b is None else b.decode("ascii")
    exp = {"type": TYPES[m["type"]], "line": m["line"], "file": ctx(m["file"]), "function": ctx(m["func"]),
           "category": ctx(m["cat"]), "message": m["text"] or ""}
    for k, v in exp.items():
        g = obj[k]
        if g is None and v == "":
            continue
        if not deep_equal(v, g):
            bad.append(("C13:field:" + k, "expected %r got %r" % (v, g)))
    if obj["threadId"] != thread_id:
        bad.append(("C13:field:threadId", "expected %r got %r" % (thread_id, obj["threadId"])))
    try:
        if parse_time_ms(obj["time"]) != time_ms:
            bad.append(("C13:field:time", "expected %d got %r" % (time_ms, obj["time"])))
    except Exception as e:
        bad.append(("C13:field:time", "unparsable %r (%s)" % (obj["time"], e)))
    for k, v in attrs.items():
        if not deep_equal(v, obj[k]):
            bad.append(("C13:attr-value", "attribute %r expected %r got %r" % (k, v, obj[k])))
    return bad


def shape(v):
    if isinstance(v, dict):
        return "M" + "".join(sorted(set(shape(x) for x in v.values())))
    if isinstance(v, list):
        return "L" + "".join(sorted(set(shape(x) for x in v)))
    return type(v).__name__[0]


def text_classes(s):
    c = set()
    for ch in s:
        o = ord(ch)
        if o < 0x20:
            c.add("ctl")
        elif ch in '"\\/':
            c.add("esc")
        elif o in (0x2028, 0x2029, 0x85, 0x7f):
            c.add("ls")
        elif o in (0xfffe, 0xffff):
            c.add("nonchar")
        elif o > 0xffff:
            c.add("astral")
        elif o > 0x7f:
            c.add("bmp")
    return tuple(sorted(c))


def run(ctx):
    if ctx.replay:
        rep = json.load(open(ctx.replay))["case"]
        m = rep["m"]
        for k in ("file", "func", "cat"):
            m[k] = None if m[k] is None else bytes.fromhex(m[k])
        m["attrs"] = [tuple(a) for a in m["attrs"]]
        cases = [(rep["compact"], m)]
    else:
        rnd = random.Random(ctx.seed * 32452843 + 13)
        cases = [gen_case(rnd) for _ in range(ctx.pick(20000, 1500000))]
    from ..gen import enc_value
    from ..core import hexs as _hexs
    lines = [("J3 %d %d %s %s %s" % (i, c, _hexs(m["scope_attr"][0]), enc_value(m["scope_attr"][1]), enc_msg(m))) if m.get("how") == 4
             else ("J2 %d %d %d %s" % (i, c, m.get("how", 0), enc_msg(m))) for i, (c, m) in enumerate(cases)]
    results, crashes = fmtdrv.run_cases(ctx, "san", lines, chunk=500, lags=fmtdrv.LAGS)

    def rep_of(c, m):
        mm = dict(m)
        for k in ("file", "func", "cat"):
            mm[k] = None if m[k] is None else m[k].hex()
        return {"compact": c, "m": mm}
    crashed = set()
    for cid, line, kind, err in crashes:
        crashed.add(cid)
        if kind != "skipped":
            c, m = cases[int(cid)]
            ctx.violation("C13:crash:" + kind, err[-600:], rep_of(c, m))
    distinct = set()
    samples = []
    n = 0
    for i, (c, m) in enumerate(cases):
        if str(i) in crashed:
            continue
        n += 1
        toks = results[str(i)]
        if m.get("how") == 4:
            # inner record: attributes with the scope's attribute added/overridden; outer record: the original attributes again
            inner = dict(m, attrs=[(k, v) for k, v in m["attrs"] if k != m["scope_attr"][0]] + [tuple(m["scope_attr"])])
            found = [("%s:inside-scope" % k, w) for k, w in check_one(c, inner, [toks[0]] + toks[2:])]
            found += [("%s:after-scope" % k, w) for k, w in check_one(c, m, [toks[1]] + toks[2:])]
        else:
            found = check_one(c, m, toks)
        for key, what in found:
            ctx.violation(key, "compact=%d text=%r attrs=%r :: %s" % (c, (m["text"] or "")[:60], m["attrs"][:3], what), rep_of(c, m))
        sig = (c, m.get("how", 0), text_classes(m["text"] or ""), tuple(sorted(shape(v) for _, v in m["attrs"])),
               m["file"] is None, m["func"] is None, m["type"])
        if sig[2] or sig[3]:
            distinct.add(sig)
        if len(samples) < 3 and sig[2] and sig[3] and i % 501 == 0:
            samples.append({"compact": c, "obtained": ["constructor", "formatToJson()", "instance()", "long-lived instance", "twice: inside and after a scoped sub-pipeline"][m.get("how", 0)], "message": m["text"][:80], "attributes": [[k, v] for k, v in m["attrs"]][:4],
                            "output": unhexs(results[str(i)][0])[:300]})
    cov = {
        "evaluations": n,
        "distinct_nontrivial": len(distinct),
        "rule": "messages over well-formed Unicode weighted towards quotes, backslashes, C0 controls incl. U+0000, U+007F, U+0085, "
                "U+2028/9, U+FFFE/F, astral planes, 64 KiB texts; attribute names arbitrary (not shadowing built-ins); values "
                "string/int(|n|<=2^53)/bool/double k/8/invalid/nested lists+maps depth<=4; null and empty source-location pointers; "
                "compact and indented; formatter constructed directly, obtained through SimplePipeline::formatToJson(compact) with pipelines "
                "of both modes created in random order within one process, the shared default instance, or one long-lived instance per mode that formats many records of the process; source-location strings "
                "live in caller buffers that are reused for every message; non-trivial = text has a special class or there is at least one attribute; distinct by "
                "(mode, text classes, attribute value shapes, null pointers, type)",
        "samples": samples or [{"message": cases[0][1]["text"]}],
    }
    return ctx.finish(cov, ["TZ=UTC (local time == UTC when parsing 'time' back)", "Python json (strict) is the reference parser"],
                      min_evals=1 if ctx.replay else 1000)
