"""C03 — asynchronous hand-off preserves message content and order.

Producers log with heap buffers that are scrubbed and freed right after the call while the logger runs
on its own thread; a recording sink snapshots every accessor of each delivered message.  The offline
checker compares each delivery with the message as it was at the hand-off (hook oth.post.msg) and with
what the producer knows, checks FIFO per producer and real-time order from call/return tickets, thread
identity of all handler work, and that a log call never waits for a (gated) sink.  TSan/ASan on a share."""
import json
import random

from .. import conc, core

LEVEL = "exploration"
CYCLE = ["plain", "plain", "tsan", "plain", "san", "plain"]


def run(ctx):
    rnd = random.Random(ctx.seed * 60017 + 3)
    if ctx.replay:
        hists = [json.load(open(ctx.replay))["case"]]
    else:
        hists = [conc.gen_history(rnd, "c03", i, CYCLE) for i in range(ctx.pick(48, 4000))]
    results = conc.run_all(ctx, hists)
    fps = set()
    totals = {"messages": 0, "twin_compared": 0, "ordered_pairs": 0, "gated": 0, "max_backlog": 0, "tsan_reports": 0, "tsan_env_noise": 0,
              "switches": 0}
    byfl = {}
    samples = []
    evals = 0
    slow = 0
    harness_only = []
    for h, r in zip(hists, results):
        key_ctx = {k: h.get(k) for k in ("target", "variant", "producers", "msgs", "sink", "noise", "cores", "burst", "flavour")}
        if r["rc"] == "slow":
            slow += 1          # cut off by the wall-clock watchdog while still making progress: inconclusive for this history
            continue
        if r["rc"] != 0:
            kind = core.sanitizer_kind(r["err"]) or ("hang" if r["rc"] == "hang" else "rc=%s" % r["rc"])
            if r["rc"] == "hang":
                r["err"] = "no new observation for %.0f s; stacks:\n%s" % (conc.NO_PROGRESS_S, r["stacks"])
            ctx.violation("C03:driver-%s:target=%s" % (kind, h["target"]), "%s :: %s" % (key_ctx, r["err"][-1500:]), h)
            continue
        evals += 1
        byfl[h["flavour"]] = byfl.get(h["flavour"], 0) + 1
        seen = set()
        for key, what in r["v"]:
            if key in seen:
                continue
            seen.add(key)
            ctx.violation(key + ":target=" + h["target"], "%s :: %s" % (key_ctx, what), h)
        if r["tsan"]:
            viol, noise, harness, total = r["tsan"]
            totals["tsan_reports"] += total
            totals["tsan_env_noise"] += noise
            for k, raw in viol.items():
                ctx.violation("C03:" + k, "%s :: %s" % (key_ctx, raw[:2500]), h)
            if harness:
                harness_only.append(list(harness.values())[0][:1500])
        st = r["stats"]
        for k in ("messages", "twin_compared", "ordered_pairs", "gated", "switches"):
            totals[k] += st.get(k, 0)
        totals["max_backlog"] = max(totals["max_backlog"], st.get("max_backlog", 0))
        if st.get("max_backlog", 0) >= 2 and st.get("ordered_pairs", 0) > 0:
            fps.add((h["target"], h["producers"], st["fingerprint"]))
        if len(samples) < 3 and st.get("max_backlog", 0) > 3:
            samples.append({"history": h, "observed": st, "hooks": r["hooks"]})
    if not ctx.replay and totals["twin_compared"] == 0:
        raise core.Inconclusive("hook oth.post.msg was never reached: no hand-off twin was compared")
    if harness_only and not ctx.fresh_violations():
        # a race report whose stacks show harness frames only says nothing about the library; it voids the run unless the run already has
        # a verdict of its own (with the library's locks broken the harness' recorders, which rely on them, race as well)
        raise core.Inconclusive("TSan report in harness code only: %s" % harness_only[0])
    cov = {
        "evaluations": evals,
        "distinct_nontrivial": len(fps),
        "rule": "one history = N producers (2..16) x M messages, caller buffers scrubbed and freed after every call; variants: moved to its own "
                "thread before the application object exists; a second own-thread stage in front of the sink; logger (or bare "
                "OwnThreadHandler<Pipeline> with pre-set attributes / formatted text) on its own thread, sink profiles incl. gated "
                "deliveries, bursts, hook noise, CPU affinity; non-trivial = a backlog of >= 2 was observed and at least one cross-call "
                "real-time ordered pair exists; distinct by (target, producers, fingerprint of the delivery order)",
        "samples": samples,
        "totals": totals,
        "histories_by_flavour": byfl,
        "histories_cut_off_as_slow_inconclusive": slow,
    }
    return ctx.finish(cov, ["Qt's posted-event queue is trusted to be what Qt documents", "hook oth.post.msg supplies the synchronous twin; "
                            "producer-known fields are compared independently of it"], min_evals=1 if ctx.replay else 24,
                      min_distinct=2 if not ctx.replay else 0)
