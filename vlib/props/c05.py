"""C05 — file rotation never loses, duplicates, reorders or splits a record."""
from .. import rotcheck

LEVEL = "exploration"
PROFILE = {"p_day": 0.06, "p_restart": 0.07, "p_foreign": 0.01, "big_p": 0.08, "burst": 0.05, "marathon_p": 0.03, "marathon_N": [-1, 0, 12, 12, 30], "marathon_n": [12, 25, 40, 101, 130],
           "pingpong_p": 0.06}


def run(ctx):
    return rotcheck.run_property(ctx, "C05", PROFILE, quick=400, thorough=15000,
                                 nontrivial=lambda a: a.stats["rotations"] >= 2 and (a.stats["restarts"] >= 1 or a.stats["compressions"] >= 1),
                                 rule="non-trivial = >= 2 rotations and (>= 1 restart or >= 1 compression)")
