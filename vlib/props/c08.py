"""C08 — compressed rotated files are valid gzip of exactly the rotated log."""
from .. import rotcheck

LEVEL = "exploration"
PROFILE = {"L_choices": [7, 64, 1000, 8192, 65536, 1 << 20, 3 << 20], "N_choices": [-1, 0, 3, 5], "option_choices": [4, 5, 6, 7],
           "p_day": 0.03, "p_restart": 0.05, "p_foreign": 0.0, "big_p": 0.5, "n_ops": (5, 40)}


def extra(totals):
    return {"gzip_members_parsed": totals.get("gz_checked", 0), "compressions_with_unlink_time_snapshot": totals.get("compressions", 0)}


def run(ctx):
    return rotcheck.run_property(ctx, "C08", PROFILE, quick=150, thorough=8000,
                                 nontrivial=lambda a: a.stats["compressions"] >= 1,
                                 rule="compression always on; contents from 1 byte to 4 MiB crossing 8 KiB / 16 KiB / 64 KiB / 1 MiB; every .gz parsed by "
                                      "an independent RFC 1952 reader (single member, deflate end, CRC-32, ISIZE) and compared with the bytes it replaces; "
                                      "the .gz is snapshotted at the moment the original is unlinked; non-trivial = >= 1 compression",
                                 extra_cov=extra, mirror={"C05:rotated-file-mutated": "C08:content-differs"})
