"""C02 — concurrent logging is exactly-once, mutually exclusive and order-preserving.

N producer threads log through the installed synchronous Logger (Qt's QMessageLogger front door) or a
bare OwnThreadHandler<Pipeline> in synchronous mode, under hook-injected schedule noise, restricted CPU
affinity and sinks of varying duration.  The harness' own probe handlers record an in-flight counter
and the serial order; the offline checker (vlib/hist_conc.py) decides mutual exclusion, exactly-once,
per-producer order, consecutive sequence numbers and conformance of the stateful built-ins to the
observed serial order.  A share of the histories runs under ThreadSanitizer (QMutex shim) and ASan."""
import json
import random

from .. import conc, core

LEVEL = "exploration"
CYCLE = ["plain", "plain", "plain", "tsan", "plain", "plain", "plain", "san"]


def run(ctx):
    rnd = random.Random(ctx.seed * 60013 + 2)
    if ctx.replay:
        hists = [json.load(open(ctx.replay))["case"]]
    else:
        hists = [conc.gen_history(rnd, "c02", i, CYCLE) for i in range(ctx.pick(64, 6000))]
        # convoys: many producers queue for seconds behind handlers that take 100 ms each
        for k in range(ctx.pick(2, 40)):
            hists.append({"mode": "c02", "target": "logger" if k % 2 == 0 else "bare", "producers": rnd.choice([36, 48, 64]), "msgs": 2, "sink": 5,
                          "noise": "0:0:0:0:", "cores": 0, "seed": rnd.randint(1, 10 ** 9), "burst": 0, "flavour": "plain", "switches": 0})
        # switch-heavy: the logger is moved to its own thread and back a few hundred times while every message spends 1-300 us inside the
        # pipeline and the producers are paced to about the sink's rate (so they are still logging at every switch): stops regularly find the last queued message still in a handler while other producers are about to log directly
        for k in range(ctx.pick(8, 200)):
            np_ = rnd.choice([4, 8, 16])
            hists.append({"mode": "c02", "target": "logger" if k % 2 == 0 else "bare", "producers": np_, "msgs": rnd.choice([150, 300]),
                          "pace": np_ * rnd.choice([200, 400, 800]),
                          "sink": rnd.choice([2, 2, 4]), "noise": rnd.choice(["0:0:0:0:", "{s}:50:100:150:oth.reset", "{s}:80:80:80:oth"]).format(s=rnd.randint(1, 10 ** 6)),
                          "cores": rnd.choice([0, 0, 4]), "seed": rnd.randint(1, 10 ** 9), "burst": 0,
                          "flavour": ["plain", "plain", "tsan", "plain", "plain", "san", "plain", "plain"][k % 8], "switches": rnd.choice([150, 300])})
    if not ctx.replay:
        # two independently locked pipelines (Logger + bare), both configured through the fluent keyword API, used at the same time
        for k in range(ctx.pick(6, 300)):
            hists.append({"mode": "c02b", "target": "both", "fmt": ["pretty", "pretty", "qt", "default", "json", "pretty"][k % 6],
                          "producers": rnd.choice([4, 8, 16, 32]), "msgs": rnd.choice([40, 100, 200]), "sink": rnd.choice([0, 1, 2]),
                          "noise": rnd.choice(conc.NOISES).format(s=rnd.randint(1, 10 ** 6)), "cores": rnd.choice([0, 0, 2]),
                          "seed": rnd.randint(1, 10 ** 9), "burst": 0, "flavour": ["tsan", "plain", "san", "tsan", "plain", "tsan"][k % 6],
                          "switches": 0})
    results = conc.run_all(ctx, hists)
    fps = set()
    totals = {"messages": 0, "switches": 0, "handovers": 0, "tsan_reports": 0, "tsan_env_noise": 0, "max_run": 0, "trivial": 0}
    byfl = {}
    samples = []
    evals = 0
    slow = 0
    harness_only = []
    for h, r in zip(hists, results):
        key_ctx = {k: h.get(k) for k in ("mode", "target", "fmt", "producers", "msgs", "sink", "noise", "cores", "flavour", "switches", "pace")}
        if r["rc"] == "slow":
            slow += 1          # cut off by the wall-clock watchdog while still making progress: inconclusive for this history
            continue
        if r["rc"] != 0:
            kind = core.sanitizer_kind(r["err"]) or ("hang" if r["rc"] == "hang" else "rc=%s" % r["rc"])
            if r["rc"] == "hang":
                r["err"] = "no new observation for %.0f s; stacks:\n%s" % (conc.NO_PROGRESS_S, r["stacks"])
            ctx.violation("C02:driver-%s:target=%s" % (kind, h["target"]), "%s :: %s" % (key_ctx, r["err"][-1500:]), h)
            continue
        evals += 1
        byfl[h["flavour"]] = byfl.get(h["flavour"], 0) + 1
        for key, what in r["v"]:
            ctx.violation(key + ":target=" + h["target"], "%s :: %s" % (key_ctx, what), h)
        if r["tsan"]:
            viol, noise, harness, total = r["tsan"]
            totals["tsan_reports"] += total
            totals["tsan_env_noise"] += noise
            for k, raw in viol.items():
                ctx.violation("C02:" + k, "%s :: %s" % (key_ctx, raw[:2500]), h)
            if harness:
                harness_only.append(list(harness.values())[0][:1500])
        st = r["stats"]
        for k in ("messages", "switches", "handovers"):
            totals[k] += st.get(k, 0)
        totals["max_run"] = max(totals["max_run"], st.get("max_run", 0))
        if h.get("switches"):
            totals["histories_with_mode_switches"] = totals.get("histories_with_mode_switches", 0) + 1
        if st.get("switches", 0) == 0:
            totals["trivial"] += 1
        else:
            fps.add((h["target"], h["producers"], st["fingerprint"]))
        if len(samples) < 3 and st.get("switches", 0) > 5:
            samples.append({"history": h, "observed": st, "hooks": r["hooks"]})
    if harness_only and not ctx.fresh_violations():
        # a race report whose stacks show harness frames only says nothing about the library; it voids the run unless the run already has
        # a verdict of its own (with the library's locks broken the harness' recorders, which rely on them, race as well)
        raise core.Inconclusive("TSan report in harness code only: %s" % harness_only[0])
    cov = {
        "evaluations": evals,
        "distinct_nontrivial": len(fps),
        "rule": "one history = N producers (2..64) x M messages through the synchronous Logger (Qt message handler) or a bare "
                "OwnThreadHandler<Pipeline>, with a noise profile at the guarded hook points, a sink-duration profile and a CPU-affinity "
                "restriction, and in a share of the histories a switcher thread that moves the logger to its own thread and back while the producers "
                "log; plus histories in which the Logger and a second, independently locked pipeline (both built with the fluent keyword API) are "
                "used at the same time; non-trivial = the observed serial order switches between producers at least once; distinct by "
                "(target, producers, fingerprint of the producer sequence along the serial order)",
        "samples": samples,
        "totals": totals,
        "histories_by_flavour": byfl,
        "histories_cut_off_as_slow_inconclusive": slow,
    }
    return ctx.finish(cov, ["schedules are those the OS plus injected noise produce", "Qt internals are uninstrumented; QMutex is made "
                            "visible to TSan by a --wrap shim"], min_evals=1 if ctx.replay else 30, min_distinct=2 if not ctx.replay else 0)
