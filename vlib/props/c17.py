"""C17 — sorted pipeline keeps handler classes in order for any call sequence."""
import itertools
import random

from .. import fmtdrv

LEVEL = "exploration"
OPS = ["aA", "aF", "sM", "aS", "aP", "cA", "cF", "cM", "cS", "cP", "cc"]
NULLS = ["nA", "nF", "nM", "nS", "nP"]
REUSE = ["rA", "rF", "rM", "rS", "rP"]   # pass the most recently created instance of that class again
RANK = {"A": 0, "F": 1, "M": 2, "S": 3, "P": 4}


def reference(ops):
    """Rank-ordered list model.  Yields the arrangement after each op as list of (class, id)."""
    cur = []
    out = []
    hid = 0
    last = {}
    for op in ops:
        hid += 1  # the driver burns one id per op, whatever the op
        if op[0] == "a" or op == "sM" or (op[0] == "r" and op[1] in last):
            cls = op[1]
            ident = hid
            if op[0] == "r":
                ident = last[cls]
            else:
                last[cls] = hid
            if cls == "M":
                cur = [h for h in cur if h[0] != "M"]
            pos = 0
            for i, h in enumerate(cur):
                if RANK[h[0]] <= RANK[cls]:
                    pos = i + 1
            cur = cur[:pos] + [(cls, ident)] + cur[pos:]
        elif op[0] == "c":
            if op == "cc":
                cur = []
            else:
                cur = [h for h in cur if h[0] != op[1]]
        elif op[0] == "n":
            pass
        out.append(list(cur))
    return out


def parse_state(tok):
    st, ex = tok.split("|")
    arr = [] if st == "-" else [(x[0], int(x[1:])) for x in st.split(",")]
    exe = [] if ex == "-" else [int(x) for x in ex.split(",")]
    return arr, exe


def gen_cases(ctx):
    rnd = random.Random(ctx.seed * 7919 + 17)
    cases = []
    exhaustive_len = ctx.pick(3, 5)
    for n in range(1, exhaustive_len + 1):
        for seq in itertools.product(OPS, repeat=n):
            cases.append(list(seq))
    n_exh = len(cases)
    for n in range(2, 4):
        for seq in itertools.product(["aA", "aF", "sM", "aS", "aP"] + REUSE, repeat=n):
            if any(o[0] == "r" for o in seq):
                cases.append(list(seq))
    for _ in range(ctx.pick(5000, 400000)):
        n = rnd.randint(1, 60)
        # weight appends over clears so that lists grow
        w = [6, 6, 3, 5, 4, 1, 1, 1, 1, 1, 0.5]
        seq = rnd.choices(OPS, weights=w, k=n)
        if rnd.random() < 0.3:
            for _ in range(rnd.randint(1, 4)):
                seq.insert(rnd.randrange(len(seq) + 1), rnd.choice(NULLS))
        if rnd.random() < 0.4:
            for _ in range(rnd.randint(1, 5)):
                seq.insert(rnd.randrange(len(seq) + 1), rnd.choice(REUSE))
        cases.append(seq)
    return cases, n_exh, exhaustive_len


def classify(ops, i, exp, got):
    """Cause-class key for a divergence at op i."""
    op = ops[i]
    return "C17:order:after=%s" % op


def run(ctx):
    if ctx.replay:
        import json
        rep = json.load(open(ctx.replay))
        cases = [rep["case"]["ops"]]
        n_exh, exh_len = 0, 0
    else:
        cases, n_exh, exh_len = gen_cases(ctx)
    lines = ["O %d %d %s" % (i, len(c), " ".join(c)) for i, c in enumerate(cases)]
    sigs = set()
    nontrivial = set()
    compared = 0
    samples = []
    flavours = ["san", "plain"]
    crash_counts = {}
    for fl in flavours:
        results, crashes = fmtdrv.run_cases(ctx, fl, lines, chunk=2000)
        crashed_ids = set()
        for cid, line, kind, err in crashes:
            crashed_ids.add(cid)
            if kind == "skipped":
                continue
            crash_counts[kind] = crash_counts.get(kind, 0) + 1
            where = "?"
            for fn in ("insertBetweenNearLeft", "insertBetweenNearRight", "clear"):
                if fn in err:
                    where = fn
                    break
            ctx.violation("C17:ub:%s@%s" % (kind, where),
                          "flavour=%s ops=%s :: %s" % (fl, " ".join(cases[int(cid)]), err[-800:]),
                          {"ops": cases[int(cid)], "flavour": fl})
        for i, ops in enumerate(cases):
            cid = str(i)
            if cid in crashed_ids:
                continue
            if cid not in results:
                raise RuntimeError("missing result for case %s" % cid)
            exp = reference(ops)
            toks = results[cid]
            if len(toks) != len(ops):
                raise RuntimeError("result length mismatch")
            for j, tok in enumerate(toks):
                arr, exe = parse_state(tok)
                compared += 1
                if arr != exp[j]:
                    ctx.violation(classify(ops, j, exp[j], arr),
                                  "flavour=%s after ops %s expected %s got %s"
                                  % (fl, " ".join(ops[:j + 1]), exp[j], arr),
                                  {"ops": ops[:j + 1], "flavour": fl})
                    break
                if exe != [h[1] for h in arr]:
                    ctx.violation("C17:exec-order", "flavour=%s ops %s arrangement %s executed %s"
                                  % (fl, " ".join(ops[:j + 1]), arr, exe), {"ops": ops[:j + 1], "flavour": fl})
                    break
            if fl == flavours[0]:
                final = exp[-1]
                sig = tuple(ops)
                sigs.add(sig)
                classes = {h[0] for st in exp for h in st}
                if len(classes) >= 3 and any(o[0] == "c" for o in ops):
                    nontrivial.add(sig)
                if len(samples) < 4 and len(ops) >= 6 and len(final) >= 3:
                    samples.append({"ops": ops, "final_expected": ["%s%d" % h for h in final]})
    cov = {
        "evaluations": len(cases) * len(flavours),
        "distinct_nontrivial": len(nontrivial),
        "rule": "call sequences over %s (+ null-argument calls, + calls that pass an already inserted instance again); all sequences of length <= %d enumerated "
                "(%d), the rest random of length 1..60; each executed in the ASan/UBSan/_GLIBCXX_DEBUG build and "
                "in the plain build; arrangement and execution order compared with a rank-ordered list model "
                "after EVERY call; non-trivial = at least 3 handler classes present at some point and at "
                "least one clear call; distinct by op sequence" % (OPS, exh_len, n_exh),
        "samples": samples or [{"ops": cases[-1]}],
        "states_compared": compared,
        "distinct_sequences": len(sigs),
        "exhaustive_prefix_len": exh_len,
        "exhaustive_sequences": n_exh,
        "sanitizer_aborts": crash_counts,
    }
    return ctx.finish(cov, ["Qt 5.15 system library uninstrumented", "handlers are recording stubs that always pass"],
                      min_evals=1 if ctx.replay else 1000, min_distinct=2)
