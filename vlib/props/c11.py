"""C11 — a fatal message and everything before it reach the log file.

Each case is a child process (drv_app fatal, plain flavour) that configures a synchronous logger,
logs n predecessors (from the main thread and k worker threads), and raises qFatal from a chosen
thread once every predecessor call has returned.  The parent requires death by SIGABRT and then
reads the files back with its own reader."""
import json
import os
import random
import re
import shutil
import subprocess

from .. import build, core, logdir

LEVEL = "fault_enumeration"

CFGS = ["oneline", "fluent", "fluentrot", "nested", "nestedcat", "ini", "nestedfirst", "badfirst", "lateappend", "wide3", "wide17", "wide40"]
NS = [0, 1, 3, 100, 2000, 50000]
SIZES = [5, 200, 20000]
ID_RE = re.compile(rb"id=(\d+);")


def bound(n, size, reruns, L, N):
    """keep a case affordable: without retention every rotated file stays and every rotation lists (and the reader re-reads) them all,
    so the number of rotations over the whole crash loop is capped; so is the volume written"""
    def rotations(n, reruns):
        if L <= 0:
            return 0
        return n * reruns if L < 2 * size else n * reruns * size // L
    if N <= 0 and rotations(n, reruns) > 1500:
        reruns = 1
        while rotations(n, reruns) > 1500:
            n //= 2
    if n * size * reruns > 45000000:
        reruns = 1
    return reruns, n


def gen_case(rnd, quick):
    cfg = rnd.choice(CFGS)
    size = rnd.choice(SIZES)
    n = rnd.choice(NS if not quick else NS[:5])
    if size == 20000 and n > 2000:
        n = 2000
    if n == 50000 and size > 5:
        size = 5
    nthreads = rnd.choice([0, 0, 1, 2, 4])
    fatal_thread = rnd.randint(0, nthreads)
    if cfg in ("fluent",):
        L, N, opts = 0, 0, 0
    else:
        L = rnd.choice([0, 0, 300, 4096, 100000, 1 << 20])
        N = rnd.choice([0, 0, -1, 1, 3, 200])
        opts = rnd.choice([0, 1, 2, 3, 4, 5, 6, 7])
        if cfg == "ini" and L == 0 and N == 0:
            pass
    reruns = rnd.choice([1, 1, 1, 2, 3, 4]) if n <= 2000 else 1
    reruns, n = bound(n, size, reruns, L, N)
    return {"cfg": cfg, "n": n, "size": size, "nthreads": nthreads, "fatal_thread": fatal_thread, "L": L, "N": N,
            "opts": opts, "withapp": rnd.randint(0, 1), "stderr": rnd.choice(["null", "null", "full"]),
            "reruns": reruns}


BASE = 1000000


def text_of(i, size):
    s = "id=%d;" % i
    return s + "x" * max(0, size - len(s))


def run_case(ctx, exe, case, idx):
    d = os.path.join(ctx.tmp, "c%d" % idx)
    logd = os.path.join(d, "logs")
    os.makedirs(logd)
    evf = os.path.join(d, "ev")
    env = core.base_env(d)
    rc, err = -6, ""
    accepted = 0
    for run in range(case.get("reruns", 1)):
        # a crash loop: the same program with the same number and size of messages, again and again over the same directory
        argv = [exe, "fatal", evf, case["cfg"], logd, str(case["n"]), str(case["size"]), str(case["nthreads"]),
                str(case["fatal_thread"]), str(case["L"]), str(case["N"]), str(case["opts"]), str(case["withapp"]), str(run * BASE)]
        try:
            how = case.get("stderr", "null")
            errf = open("/dev/full", "wb") if (how == "full" and os.path.exists("/dev/full")) else subprocess.DEVNULL
            r = subprocess.run(argv, env=env, stdout=subprocess.DEVNULL, stderr=errf, timeout=600)
            rc = r.returncode
        except subprocess.TimeoutExpired:
            rc = "timeout"
        if rc != -6:
            break
    res = {"rc": rc, "err": err[-600:], "files": {}}
    if rc == -6:
        for fname in ("app.log", "warn.log", "late.log"):
            if os.path.exists(os.path.join(logd, fname)) or any(n.startswith(fname.split(".")[0] + ".") for n in os.listdir(logd)):
                data, bad = logdir.read_all(logd, fname)
                res["files"][fname] = (data, bad)
        res["listing"] = sorted((n, os.path.getsize(os.path.join(logd, n))) for n in os.listdir(logd))
        try:
            res["accepted"] = sum(1 for l in open(evf) if l.startswith("A ")) // max(1, case.get("reruns", 1))
        except OSError:
            res["accepted"] = -1
    shutil.rmtree(d, ignore_errors=True)
    return res


def judge(ctx, case, res):
    """yields (key, what): every run of the crash loop is judged on its own ids (run r uses ids r*BASE + i)"""
    R = case.get("reruns", 1)
    for run in range(R):
        sub = dict(case, reruns=1)
        for key, what in judge_run(ctx, sub, res, run * BASE, last=(run == R - 1), runs=R):
            yield (key + (":crash-loop" if R > 1 else ""), ("run %d of %d: " % (run + 1, R) if R > 1 else "") + what)


def judge_run(ctx, case, res, base, last, runs):
    cfg, n, size = case["cfg"], case["n"], case["size"]
    T = case["nthreads"] + 1
    rotating = cfg != "fluent" and (case["L"] > 0 or case["opts"] & 3 or cfg in ("fluentrot", "nested", "nestedcat", "ini", "nestedfirst", "badfirst", "lateappend") or cfg.startswith("wide"))
    retention = rotating and case["N"] >= 2
    expect = {}
    allids = list(range(n + 1))
    if cfg in ("nested", "nestedfirst", "lateappend") or cfg.startswith("wide"):
        expect["app.log"] = allids
        expect["warn.log"] = [i for i in range(n) if i % 3 == 1] + [n]
        if cfg == "lateappend":
            expect["late.log"] = allids
    elif cfg == "nestedcat":
        expect["app.log"] = list(range(n))           # refuses the fatal's category, predecessors still qualify
        expect["warn.log"] = [i for i in range(n) if i % 3 == 1] + [n]
    else:
        expect["app.log"] = allids
    for fname, ids in expect.items():
        data, bad = res["files"].get(fname, (b"", []))
        for bn, berr in bad:
            yield ("C11:unreadable-rotated-file", "%s: %s" % (bn, berr))
        lines = data.split(b"\n")
        seen = []
        torn = 0
        for ln in lines:
            m = ID_RE.search(ln)
            if not m:
                continue
            gid = int(m.group(1))
            if not (base <= gid <= base + n):
                continue                     # another run of the crash loop
            i = gid - base
            want = text_of(gid, size).encode() if i != n else b"id=%d; FATAL-END" % gid
            if want not in ln:
                torn += 1
                continue
            seen.append(i)
        if len(seen) != len(set(seen)):
            yield ("C11:duplicate-record", "%s: duplicated ids" % fname)
        seenset = set(seen)
        fatal_expected = n in ids
        if fatal_expected and n not in seenset and not last and retention and fname == "app.log" and not seenset:
            continue                         # an earlier run of the loop whose files retention has removed entirely
        if fatal_expected and n not in seenset:
            yield ("C11:fatal-line-missing:cfg=%s" % ("rotating" if rotating else "plain"),
                   "%s lacks the fatal line (n=%d size=%d files=%s)" % (fname, n, size, res.get("listing")))
        missing = [i for i in ids if i not in seenset and i != n]
        if missing and retention and fname == "app.log":
            # whole rotated-out files are retention's right: the survivors must be a suffix in every thread's order
            # (threads interleave arbitrarily, so the suffix rule is per producer thread)
            lo = {}
            for i in ids:
                if i in seenset and i != n:
                    lo[i % T] = min(lo.get(i % T, i), i)
            missing = [i for i in missing if i > lo.get(i % T, n)]
        if missing:
            yield ("C11:predecessors-missing:cfg=%s" % ("rotating" if rotating else "plain"),
                   "%s lacks %d of %d predecessors (first missing id=%d, last=%d; n=%d size=%d threads=%d) torn=%d files=%s"
                   % (fname, len(missing), len(ids), missing[0], missing[-1], n, size, T, torn, res.get("listing")))
        # per-thread order and fatal last
        lastid = {}
        for pos, i in enumerate(seen):
            if i == n:
                continue
            t = i % T
            if t in lastid and lastid[t] > i:
                yield ("C11:order", "%s: thread %d id %d after %d" % (fname, t, i, lastid[t]))
                break
            lastid[t] = i
        if fatal_expected and n in seenset and seen and seen[-1] != n:
            yield ("C11:fatal-not-last", "%s: records after the fatal line" % fname)


def run(ctx):
    exe = build.driver("plain", "drv_app")
    if ctx.replay:
        cases = [json.load(open(ctx.replay))["case"]]
    else:
        rnd = random.Random(ctx.seed * 911 + 11)
        count = ctx.pick(96, 2000)
        cases = []
        # every configuration x {small, buffer-crossing} first, then random
        for cfg in CFGS:
            for n, size in ((3, 5), (100, 200), (2000, 200)):
                c = gen_case(rnd, ctx.quick)
                c.update(cfg=cfg, n=n, size=size)
                c["reruns"], c["n"] = bound(c["n"], c["size"], c["reruns"], c["L"], c["N"])
                if cfg == "fluent":
                    c.update(L=0, N=0, opts=0)
                cases.append(c)
        while len(cases) < count:
            cases.append(gen_case(rnd, ctx.quick))
    from concurrent.futures import ThreadPoolExecutor
    with ThreadPoolExecutor(max_workers=os.cpu_count() or 4) as ex:
        results = list(ex.map(lambda t: run_case(ctx, exe, t[1], t[0]), enumerate(cases)))
    distinct = set()
    evals = 0
    samples = []
    sig_counts = {}
    for case, res in zip(cases, results):
        if res["rc"] == "timeout":
            raise core.Inconclusive("child did not terminate within 600 s: %s" % case)
        if res["rc"] != -6:
            raise core.Inconclusive("child did not die by SIGABRT (rc=%s): %s :: %s" % (res["rc"], case, res["err"]))
        if res.get("accepted") != case["n"]:
            raise core.Inconclusive("child accepted %s of %d predecessors before the fatal" % (res.get("accepted"), case["n"]))
        evals += 1
        for key, what in judge(ctx, case, res):
            ctx.violation(key, "%s :: %s" % (case, what), case)
        total_bytes = case["n"] * case["size"]
        sig = (case["cfg"], case["n"], case["size"], case["nthreads"], case["fatal_thread"] != 0, case["L"], case["N"], case["opts"],
               case.get("stderr"), case.get("reruns", 1))
        if case["n"] > 0:
            distinct.add(sig)
        k = "%s/%s" % (case["cfg"], "above-16KiB" if total_bytes > 16384 else "below-16KiB")
        sig_counts[k] = sig_counts.get(k, 0) + 1
        if len(samples) < 4:
            samples.append({"case": case, "died": "SIGABRT", "files": res.get("listing")})
    cov = {
        "evaluations": evals,
        "distinct_nontrivial": len(distinct),
        "rule": "one child process per case: configuration kind x number/size of predecessors x producer threads x thread raising qFatal x "
                "rotation options x state of the process's stderr (discarded, /dev/full) x crash loop (the same program 1-4 times over one directory); non-trivial = at least one predecessor; distinct by the full parameter tuple",
        "samples": samples,
        "cases_by_configuration_and_buffer_class": sig_counts,
        "fault": "process termination by qFatal -> abort() (SIGABRT) after the message handler returns; observed exit status -6 in every child",
    }
    return ctx.finish(cov, ["the abort is Qt's own; files are read after the child has died", "LC_ALL=C.UTF-8"],
                      min_evals=1 if ctx.replay else 30)
