"""C06 — retention bounds the file count and deletes only the oldest rotated files."""
from .. import rotcheck

LEVEL = "exploration"
PROFILE = {"L_choices": [1, 7, 64, 1000], "N_choices": [-1, 0, 1, 2, 2, 3, 3, 5, 12], "p_day": 0.04, "p_restart": 0.05, "p_foreign": 0.06,
           "burst": 0.12, "p_reconf": 0.35, "gran_choices": [1, 1000000, 1000000000, 2000000000], "real_p": 0.15, "n_ops": (10, 60),
           "option_choices": [0, 1, 2, 3, 4, 5, 6, 7], "marathon_p": 0.02}


def extra(totals):
    return {"observations_with_mtime_ties_among_rotated_files": totals.get("mtime_ties", 0),
            "highest_rotation_index_seen": totals.get("max_index", 0)}


def run(ctx):
    return rotcheck.run_property(ctx, "C06", PROFILE, quick=300, thorough=12000,
                                 nontrivial=lambda a: a.stats["rotations"] >= 3 and (a.stats["retention_removals"] >= 1 or a.stats["max_rotated"] >= 3),
                                 rule="non-trivial = >= 3 rotations and (>= 1 retention removal or >= 3 rotated files kept)",
                                 extra_cov=extra)
