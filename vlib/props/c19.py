"""C19 — configuration front-ends build the documented pipeline, end to end.

Part A: one child process (drv_app config) per drawn configuration: a subset of the INI keys written by
QSettings itself and applied through configureFromIniFile / configure(QSettings), or a one-line
configure() argument tuple; the child emits a generated stream through Qt's logging front door; stdout,
stderr and the log directory are captured and compared with the composition of the category-rule,
regular-expression and pattern references (C15/C16/C12 oracles) and the sink multiplicities.
Part B: all install / restore / foreign-handler histories up to a bound are run in-process (drv_fmt H)
against a non-deterministic reference automaton (accept-set where the statement does not decide)."""
import itertools
import json
import os
import random
import re
import shutil
import subprocess

from .. import build, core, fmtdrv, logdir, ref_pattern, rot
from ..core import hexs
from . import c15, c16

LEVEL = "exploration"
TYPES4 = ["debug", "info", "warning", "critical", "fatal"]
ANSI = re.compile(r"\x1b\[[0-9;]*m")
CATS = ["default", "app", "app.core", "app.ui", "net", "net.http", "db.sql", "x"]
PIECES = ["%{message}", "%{type}", "%{category}", "%{line}", "%{file}", "%{type:>8}", "%{message:<12}", "%{category:^9}", "%{line:0>5}",
          "%{message:5!}", "%%", "[", "] ", " - ", ": ", "|", "%{if-warning}W%{endif}", "%{if-debug}dbg %{endif}", "%{if-critical}!!%{endif}",
          "#", "%{shortfile}", "%{function}"]


def gen_pattern(rnd):
    for _ in range(50):
        p = "".join(rnd.choice(PIECES) for _ in range(rnd.randint(1, 7)))
        if rnd.random() < 0.12:
            # only conditional blocks: messages of the other types format to the EMPTY string, which is still "formatted"
            p = "".join(rnd.choice(["%{if-warning}W %{message}%{endif}", "%{if-critical}E %{message}%{endif}", "%{if-debug}%{message}%{endif}",
                                    "%{if-info}i:%{message}%{endif}"]) for _ in range(rnd.randint(1, 2)))
        elif "%{message" not in p:
            p += " %{message}"
        probe = {"type": 1, "line": 3, "file": b"src/app/main.cpp", "func": b"int app::run(int)", "cat": b"app", "text": "hello",
                 "attrs": {}, "time_ms": 0, "thread_id": 1, "steady_ms": 0, "func_clean": "app::run"}
        acc, reason = ref_pattern.accept_set(p, probe)
        if acc is not None:
            return p
    return "%{type} %{message}"


def gen_spec(rnd, idx):
    mode = rnd.choice(["ini", "ini", "settings", "oneline", "oneline"])
    sp = {"idx": idx, "mode": mode, "keys": {}, "oneline": None}
    words = c16.WORDS
    cats = list(CATS)
    if mode == "oneline":
        with_path = rnd.random() < 0.8
        sp["oneline"] = {"path": "app.log" if with_path else "", "size": rnd.choice([0, 0, 400, 100000]), "count": rnd.choice([0, 0, 3, 5]),
                         "opts": rnd.choice([0, 1, 2, 4, 5, 7]), "async": rnd.choice([0, 1])}
    else:
        k = sp["keys"]
        if rnd.random() < 0.5:
            text, _, probes = c15.gen_case(rnd)
            k["filter_rules"] = text
            cats += [c for c, _ in probes if re.fullmatch(r"[\x21-\x7e]+", c)][:6]
        if rnd.random() < 0.35:
            k["regexp_filter"] = rnd.choice(c16.REGEX_MENU)
        if rnd.random() < 0.55:
            k["message_pattern"] = gen_pattern(rnd)
        for b in ("stdout", "stdout_color", "stderr", "stderr_color", "platform_std_log"):
            r = rnd.random()
            if r < 0.3:
                k[b] = True
            elif r < 0.5:
                k[b] = False
        if rnd.random() < 0.65:
            k["path"] = "app.log"
            if rnd.random() < 0.5:
                k["max_file_size"] = rnd.choice([300, 2000, 1000000])
            if rnd.random() < 0.5:
                k["max_file_count"] = rnd.choice([0, 3, 50])
            for b in ("rotate_on_startup", "rotate_daily", "compress_old_files"):
                if rnd.random() < 0.4:
                    k[b] = rnd.random() < 0.5
        if rnd.random() < 0.5:
            k["async"] = rnd.random() < 0.6
    msgs = []
    for i in range(rnd.randint(8, 40)):
        text = "#%d %s" % (i, rnd.choice(words)) if rnd.random() < 0.8 else "#%d %s" % (i, core.unhexs(hexs(rnd.choice(["plain text", "ünï çödé", "tab\there", "100% {done}", "a:b<c>d"]))))
        msgs.append((rnd.randrange(4), rnd.choice(cats), text))
    # a synchronous configuration may end with a fatal message: the child dies by SIGABRT and every output must still be complete
    sync = (mode == "oneline" and sp["oneline"]["async"] == 0) or (mode != "oneline" and not sp["keys"].get("async"))
    sp["fatal"] = bool(sync and rnd.random() < 0.3)
    if sp["fatal"]:
        msgs.append((4, rnd.choice(cats), "#%d fatal end" % len(msgs)))
    sp["msgs"] = msgs
    # the same program started twice over the same directory (restart): start-up rotation and appending become observable
    sp["runs"] = 2 if (not sp["fatal"] and rnd.random() < 0.3) else 1
    # a share of the INI configurations runs with stdout and stderr on pseudo-terminals (the colour keys only act there)
    sp["tty"] = rnd.choice(["both", "stdout", "stderr"]) if (mode != "oneline" and not sp["fatal"] and sp["runs"] == 1 and rnd.random() < 0.25) else ""
    if sp["tty"] and rnd.random() < 0.5:
        sp["keys"]["stdout_color"] = True
        sp["keys"]["stderr_color"] = True
    return sp


def spec_text(sp, d):
    out = ["MODE " + sp["mode"]]
    for key, val in sp["keys"].items():
        if isinstance(val, bool):
            out.append("SET %s b %d" % (key, 1 if val else 0))
        elif isinstance(val, int):
            out.append("SET %s i %d" % (key, val))
        else:
            if key == "path":
                val = os.path.join(d, "logs", val)
            out.append("SET %s s %s" % (key, hexs(val)))
    if sp["oneline"]:
        o = sp["oneline"]
        path = os.path.join(d, "logs", o["path"]) if o["path"] else ""
        out.append("ONELINE %s %d %d %d %d" % (hexs(path), o["size"], o["count"], o["opts"], o["async"]))
    for t, cat, text in sp["msgs"]:
        out.append("MSG %d %s %s" % (t, hexs(cat), hexs(text)))
    return "\n".join(out) + "\n"


def expected_stream(sp):
    """-> list of (index, accept-set or None(pretty), text) for messages that must reach every configured output"""
    k = sp["keys"]
    rules = c15.parse_rules(k["filter_rules"]) if k.get("filter_rules") else []
    rx = re.compile(k["regexp_filter"]) if k.get("regexp_filter") else None
    out = []
    for i, (t, cat, text) in enumerate(sp["msgs"]):
        if rules and not c15.decide(rules, cat, TYPES4[t]):
            continue
        if rx and not rx.search(text):
            continue
        acc = None
        if k.get("message_pattern"):
            m = {"type": t, "line": i + 1, "file": b"src/app/main.cpp", "func": b"int app::run(int)", "cat": cat.encode("latin-1"),
                 "text": text, "attrs": {}, "time_ms": 0, "thread_id": 1, "steady_ms": 0, "func_clean": "app::run"}
            acc, reason = ref_pattern.accept_set(k["message_pattern"], m)
            if acc is None:
                return None
        out.append((i, acc, text))
    return out


def run_child(ctx, exe, sp):
    d = os.path.join(ctx.tmp, "c%d" % sp["idx"])
    os.makedirs(os.path.join(d, "logs"))
    specf = os.path.join(d, "spec")
    with open(specf, "w") as f:
        f.write(spec_text(sp, d))
    env = core.base_env(d)
    rc, so, se = 0, "", ""
    for run in range(sp.get("runs", 1)):
        if sp.get("tty"):
            rc, so, se = run_tty([exe, "config", os.path.join(d, "ev"), specf, d], env, which=sp["tty"])
            break
        try:
            p = subprocess.run([exe, "config", os.path.join(d, "ev"), specf, d], env=env, stdout=subprocess.PIPE, stderr=subprocess.PIPE, timeout=300)
            rc = p.returncode
            so += p.stdout.decode("utf-8", "replace")
            se += p.stderr.decode("utf-8", "replace")
        except subprocess.TimeoutExpired:
            rc = "timeout"
        if rc != 0:
            break
    active = b""
    try:
        active = open(os.path.join(d, "logs", "app.log"), "rb").read()
    except OSError:
        pass
    files = sorted(os.listdir(os.path.join(d, "logs")))
    data, bad = logdir.read_all(os.path.join(d, "logs"), "app.log")
    swallowed = 0
    try:
        swallowed = sum(1 for l in open(os.path.join(d, "ev")) if l.startswith("Q "))
    except OSError:
        pass
    shutil.rmtree(d, ignore_errors=True)
    return {"rc": rc, "stdout": so, "stderr": se, "files": files, "file_text": data.decode("utf-8", "replace"), "bad": bad, "swallowed": swallowed,
            "active_text": active.decode("utf-8", "replace")}


def run_tty(argv, env, timeout=120, which="both"):
    """child with stdout and/or stderr on its own pseudo-terminal (the other one on a pipe) -> (rc, stdout text, stderr text)"""
    import pty
    import select
    m1, s1 = pty.openpty() if which in ("both", "stdout") else os.pipe()
    m2, s2 = pty.openpty() if which in ("both", "stderr") else os.pipe()
    p = subprocess.Popen(argv, env=env, stdin=subprocess.DEVNULL, stdout=s1, stderr=s2, close_fds=True)
    os.close(s1)
    os.close(s2)
    bufs = {m1: b"", m2: b""}
    open_fds = {m1, m2}
    import time as _t
    t0 = _t.time()
    while open_fds and _t.time() - t0 < timeout:
        r, _, _ = select.select(list(open_fds), [], [], 0.2)
        for fd in r:
            try:
                chunk = os.read(fd, 65536)
            except OSError:
                chunk = b""
            if not chunk:
                open_fds.discard(fd)
            else:
                bufs[fd] += chunk
        if p.poll() is not None and not r:
            # the child may have written and exited between the select() above and the poll(): drain what is still in the terminals'
            # buffers before giving up on them
            for _ in range(50):
                r2, _, _ = select.select(list(open_fds), [], [], 0.1)
                if not r2:
                    break
                for fd in r2:
                    try:
                        chunk = os.read(fd, 65536)
                    except OSError:
                        chunk = b""
                    if not chunk:
                        open_fds.discard(fd)
                    else:
                        bufs[fd] += chunk
                if not open_fds:
                    break
            break
    try:
        p.wait(timeout=10)
    except subprocess.TimeoutExpired:
        p.kill()
        p.wait()
    for fd in (m1, m2):
        try:
            os.close(fd)
        except OSError:
            pass
    dec = lambda b: b.decode("utf-8", "replace").replace("\r\n", "\n")
    return p.returncode, dec(bufs[m1]), dec(bufs[m2])


COLOR = {0: "\x1b[90m", 1: "\x1b[32m", 2: "\x1b[33m", 3: "\x1b[31m", 4: "\x1b[1;91m"}
RESET = "\x1b[0m"


def judge_tty(sp, res):
    """terminal attached: the *_color keys colourise, the plain keys and the platform log do not"""
    k = sp["keys"]
    exp = expected_stream(sp)
    if exp is None:
        return [], None
    v = []
    # a *_color sink colourises only when its own stream is a terminal
    on_tty = {"stdout": sp["tty"] in ("both", "stdout"), "stderr": sp["tty"] in ("both", "stderr")}
    plan = {
        "stdout": ([bool(k.get("stdout_color")) and on_tty["stdout"]] if (k.get("stdout") or k.get("stdout_color")) else []),
        "stderr": ([bool(k.get("stderr_color")) and on_tty["stderr"]] if (k.get("stderr") or k.get("stderr_color")) else [])
        + ([False] if k.get("platform_std_log", True) else []),
    }
    for name, sinks in plan.items():
        got = lines_of(res[name])
        want = [(e, col) for e in exp for col in sinks]
        if len(got) != len(want):
            v.append(("C19:tty:%s:count" % name, "%s (terminal) has %d lines, expected %d" % (name, len(got), len(want))))
            continue
        for line, ((i, acc, text), col) in zip(got, want):
            t = sp["msgs"][i][0]
            if col:
                if not (line.startswith(COLOR[t]) and line.endswith(RESET)):
                    v.append(("C19:tty:%s:colour-missing" % name, "%s line %r of a colour sink lacks the colour codes of type %s" % (name, line, TYPES4[t])))
                    break
                body = line[len(COLOR[t]):-len(RESET)]
            else:
                if "\x1b[" in line and acc is not None:
                    v.append(("C19:tty:%s:unexpected-colour" % name, "%s line %r of a plain sink carries colour codes" % (name, line)))
                    break
                body = line
            if acc is not None:
                if body not in acc:
                    v.append(("C19:tty:%s:format" % name, "%s line body %r for message %d, expected %r" % (name, body, i, sorted(acc)[0])))
                    break
            elif text not in ANSI.sub("", body):
                v.append(("C19:tty:%s:content" % name, "%s line %r does not carry %r" % (name, line, text)))
                break
    return v, len(exp)


def lines_of(text):
    ls = text.split("\n")
    if ls and ls[-1] == "":
        ls.pop()
    return ls


def judge_ini(sp, res):
    k = sp["keys"]
    exp1 = expected_stream(sp)
    if exp1 is None:
        return [], None
    exp = exp1 * sp.get("runs", 1)
    v = []
    outs = {
        "stdout": (lines_of(res["stdout"]), 1 if (k.get("stdout") or k.get("stdout_color")) else 0),
        "stderr": (lines_of(res["stderr"]), (1 if (k.get("stderr") or k.get("stderr_color")) else 0) + (1 if k.get("platform_std_log", True) else 0)),
        "file": (lines_of(res["file_text"]), 1 if k.get("path") else 0),
    }
    retention = k.get("path") and k.get("max_file_count", 5) >= 2
    for name, (got, mult) in outs.items():
        want = [e for e in exp for _ in range(mult)]
        if name == "file" and retention and len(got) < len(want):
            # whole rotated files may have been removed by the retention limit: the survivors are the most recent stretch
            want = want[len(want) - len(got):]
        if len(got) != len(want):
            v.append(("C19:ini:%s:count" % name, "%s has %d lines, the configuration prescribes %d (%d qualifying messages x %d sinks); first lines %r"
                      % (name, len(got), len(want), len(exp), mult, got[:3])))
            continue
        for line, (i, acc, text) in zip(got, want):
            if acc is not None:
                if line not in acc:
                    v.append(("C19:ini:%s:format" % name, "%s line %r for message %d, pattern %r prescribes %r"
                              % (name, line, i, k.get("message_pattern"), sorted(acc)[0])))
                    break
            elif text not in ANSI.sub("", line):
                v.append(("C19:ini:%s:content" % name, "%s line %r does not carry message %d %r" % (name, line, i, text)))
                break
    if sp.get("runs", 1) == 2 and k.get("path") and exp1 and k.get("max_file_size", 1 << 20) >= (1 << 20) and not k.get("rotate_daily"):
        # restart over the first run's file: with rotate_on_startup (default on) the second run starts a fresh file, otherwise it appends
        act = lines_of(res["active_text"])
        want_n = len(exp1) if k.get("rotate_on_startup", True) else 2 * len(exp1)
        if len(act) != want_n:
            v.append(("C19:ini:rotate-on-startup", "after a restart the active file has %d lines; rotate_on_startup=%s prescribes %d"
                      % (len(act), k.get("rotate_on_startup", "absent (default on)"), want_n)))
    if not k.get("path") and res["files"]:
        v.append(("C19:ini:unexpected-file", "no path configured but the directory holds %s" % res["files"]))
    for n in res["files"]:
        if n != "app.log" and not rot.scheme_re("app.log").match(n):
            v.append(("C19:ini:unexpected-file", "unexpected file %s" % n))
    return v, len(exp)


def judge_oneline(sp, res):
    o = sp["oneline"]
    v = []
    err = lines_of(res["stderr"])
    n = len(sp["msgs"]) * sp.get("runs", 1)
    if lines_of(res["stdout"]):
        v.append(("C19:oneline:stdout", "one-line configuration wrote to stdout: %r" % res["stdout"][:200]))
    if len(err) != n:
        v.append(("C19:oneline:stderr:count", "stderr has %d lines for %d messages" % (len(err), n)))
        return v, n
    for line, (t, cat, text) in zip(err, sp["msgs"] * sp.get("runs", 1)):
        if text not in ANSI.sub("", line):
            v.append(("C19:oneline:stderr:content", "stderr line %r does not carry %r" % (line, text)))
            break
    if o["path"]:
        fl = lines_of(res["file_text"])
        want = [ANSI.sub("", l) for l in err]
        if o["count"] >= 2 and len(fl) < len(want):
            want = want[len(want) - len(fl):]
        if fl != want:
            j = next((i for i, (a, b) in enumerate(zip(fl, want)) if a != b), min(len(fl), len(want)))
            v.append(("C19:oneline:file-differs-from-console", "log file is not the console text minus colour codes: %d vs %d lines, first "
                      "difference at line %d: file %r console %r" % (len(fl), len(want), j, fl[j] if j < len(fl) else None,
                                                                     want[j] if j < len(want) else None)))
    elif res["files"]:
        v.append(("C19:oneline:unexpected-file", "no path given but the directory holds %s" % res["files"]))
    return v, n


# ------------------------------------------------------------------------------------------------ part B

HOPS = ["iA", "iB", "f0", "f1", "fd", "rs"]


def run_part_b(ctx):
    maxlen = ctx.pick(5, 7)
    cases = []
    for initial in (0, 1):
        for n in range(1, maxlen + 1):
            for ops in itertools.product(HOPS, repeat=n):
                cases.append((initial, list(ops)))
    rnd = random.Random(ctx.seed * 13 + 19)
    for _ in range(ctx.pick(2000, 100000)):
        cases.append((rnd.randrange(2), [rnd.choice(HOPS + ["f2"]) for _ in range(rnd.randint(8, 30))]))
    lines = ["H %d %d %d %s" % (i, ini, len(ops), " ".join(ops)) for i, (ini, ops) in enumerate(cases)]
    results, crashes = fmtdrv.run_cases(ctx, "san", lines, chunk=4000)
    crashed = set()
    for cid, line, kind, err in crashes:
        crashed.add(cid)
        if kind != "skipped":
            ctx.violation("C19:handlers:crash:" + kind, err[-500:], {"part": "B", "initial": cases[int(cid)][0], "ops": cases[int(cid)][1]})
    n = amb = 0
    distinct = set()
    for i, (ini, ops) in enumerate(cases):
        if str(i) in crashed:
            continue
        obs = results[str(i)]
        n += 1
        # the non-deterministic automaton must be advanced with the observation (prune states that disagree)
        states = {("f3" if ini else "qt", None, None)}
        bad = None
        ambiguous = False
        for j, op in enumerate(ops):
            step = None
            for acc, sts in automaton_step(states, op):
                step = (acc, sts)
            acc, sts = step
            if len(acc) > 1:
                ambiguous = True
            if obs[j] not in acc:
                bad = (j, acc)
                break
            states = {s for s in sts if (("L" + s[2]) if s[0] == "L" else s[0]) == obs[j]}
        if ambiguous:
            amb += 1
        if bad:
            j, acc = bad
            ctx.violation("C19:handlers:after=%s" % ops[j], "initial=%s ops=%s: after step %d the active handler is %s, the statement allows %s"
                          % ("f3" if ini else "qt-default", " ".join(ops[:j + 1]), j + 1, obs[j], sorted(acc)),
                          {"part": "B", "initial": ini, "ops": ops[:j + 1]})
        if "rs" in ops and any(o[0] == "i" for o in ops):
            distinct.add((ini, tuple(ops)))
    return n, len(distinct), amb, maxlen


def automaton_step(states, op):
    nxt = set()
    for cur, saved, active in states:
        if op in ("iA", "iB"):
            who = op[1]
            if cur == "L":
                nxt.add(("L", saved, who))
            elif saved is None:
                nxt.add(("L", cur, who))
            else:
                nxt.add(("L", saved, who))
                nxt.add(("L", cur, who))
        elif op in ("f0", "f1", "f2"):
            nxt.add((op, saved, active))
        elif op == "fd":
            nxt.add(("qt", saved, active))
        elif op == "rs":
            if saved is None:
                nxt.add((cur, None, active))
            elif cur == "L":
                nxt.add((saved, None, active))
            else:
                nxt.add((cur, None, active))
    yield {(("L" + a) if c == "L" else c) for c, s, a in nxt}, nxt


ANSI = re.compile("\x1b\\[[0-9;]*m")
PRETTY = re.compile(r"^\d\d\.\d\d\.\d{4} \d\d:\d\d:\d\d(?:\.\d{3})? ([ IWEF]) (.*)$", re.S)   # the code prints no milliseconds, the documentation shows them


def run_part_c(ctx):
    """The one-line configuration and an INI file without message_pattern install the pretty formatter; its documented line is
    'DD.MM.YYYY hh:mm:ss.zzz T [category] message', and once more than one thread has logged it adds a thread column.  One formatter
    formats messages that really come from N distinct threads (crossing the 10 and 100 boundaries) in scripted orders; the monitor checks
    the documented shape and that the thread column is a function of the thread: absent for exactly the first thread seen, otherwise
    'T<decimal>', the same for a thread every time, different for different threads.  -> (cases, lines judged)"""
    from ..core import hexb, unhexs
    rnd = random.Random(ctx.seed * 131 + 19)
    cases = []
    for n in [1, 2, 9, 10, 11, 12, 13, 99, 100, 101, 102, 120] + [rnd.randint(2, 160) for _ in range(ctx.pick(6, 150))]:
        cats = rnd.choice([[b"default"], [b"default", b"net"], [b"a.very.long.category.name.indeed", b"default"]])
        k = rnd.random()
        if k < 0.5:
            order = list(range(n)) + [0, n - 1, 0] + [rnd.randrange(n) for _ in range(20)]
        else:
            order = [rnd.randrange(n) for _ in range(min(3 * n, 300))] + list(range(n))
        cases.append((rnd.randrange(2), rnd.choice([-1, 0, 10, 15, 40]), n, cats, order[:500]))
    lines = ["TT %d %d %d %d %d %s %d %s" % (i, c[0], c[1], c[2], len(c[3]), " ".join(hexb(x) for x in c[3]), len(c[4]),
                                              " ".join(str(t) for t in c[4])) for i, c in enumerate(cases)]
    results, crashes = fmtdrv.run_cases(ctx, "san", lines, chunk=8)
    judged = 0
    for cid, line, kind, err in crashes:
        if kind != "skipped":
            ctx.violation("C19:pretty:driver-%s" % kind, err[-800:], {"part": "C", "line": lines[int(cid)]})
    crashed = {cid for cid, _, _, _ in crashes}
    for i, c in enumerate(cases):
        if str(i) in crashed:
            continue
        n = c[2]
        label = {}
        seen_threads = []
        for t, h in zip(c[4], results[str(i)]):
            t %= n
            text = ANSI.sub("", unhexs(h))
            judged += 1
            m = PRETTY.match(text)
            letter = " IWE"[t % 4]           # the driver's thread t logs type t % 4 (debug, info, warning, critical)
            bad = None
            if not m or m.group(1) != letter or not m.group(2).endswith("text-of-t%d" % t):
                bad = "line does not have the documented shape"
            else:
                if t not in seen_threads:
                    seen_threads.append(t)
                rest = m.group(2)
                lm = re.match(r"T(\d+) ", rest)
                if len(seen_threads) == 1:
                    lab = "-"                # no thread column before a second thread has logged
                    if lm:
                        bad = "thread column although only one thread has logged"
                elif lm:
                    lab = lm.group(1)
                elif rest.startswith("   "):
                    lab = "-"
                else:
                    bad = "thread column is neither blank nor T<number>"
                if bad is None:
                    if lab == "-" and t != seen_threads[0]:
                        bad = "blank thread column for a thread that is not the first one seen"
                    elif lab != "-" and t == seen_threads[0]:
                        bad = "the first thread seen is labelled"
                    elif label.setdefault(t, lab) != lab and not (label[t] == "-" or lab == "-"):
                        bad = "thread labelled %s before and %s now" % (label[t], lab)
                    elif lab != "-" and any(o != t and l == lab for o, l in label.items()):
                        bad = "label T%s is shared with another thread" % lab
            if bad:
                ctx.violation("C19:pretty-thread-column", "%d threads, message of thread #%d (%d-th distinct): %s: %r"
                              % (n, t, seen_threads.index(t) if t in seen_threads else -1, bad, text[:120]), {"part": "C", "line": lines[i]})
                break
    return len(cases), judged


def run(ctx):
    exe = build.driver("plain", "drv_app")
    rnd = random.Random(ctx.seed * 7907 + 19)
    part_b = None
    if ctx.replay:
        whole = json.load(open(ctx.replay))
        rep = whole["case"]
        if rep.get("part") == "C":
            # part C is deterministic in (seed, tier): run it again as a whole
            ctx.seed, ctx.tier = whole["seed"], whole["tier"]
            ctx.quick = ctx.tier == "quick"
            nc, jc = run_part_c(ctx)
            return ctx.finish({"evaluations": nc, "distinct_nontrivial": 0, "rule": "replay of part C", "part_c_lines_judged": jc}, [], min_evals=1)
        if rep.get("part") == "B":
            specs = []
            lines = ["H 0 %d %d %s" % (rep["initial"], len(rep["ops"]), " ".join(rep["ops"]))]
            results, crashes = fmtdrv.run_cases(ctx, "san", lines, chunk=10)
            print("replay part B:", rep["ops"], "->", results.get("0"))
            specs = []
        else:
            specs = [rep]
    else:
        specs = [gen_spec(rnd, i) for i in range(ctx.pick(160, 15000))]
    from concurrent.futures import ThreadPoolExecutor
    with ThreadPoolExecutor(max_workers=os.cpu_count() or 4) as ex:
        results = list(ex.map(lambda sp: run_child(ctx, exe, sp), specs))
    evals = 0
    distinct = set()
    samples = []
    modes = {}
    qualifying = 0
    ttys = 0
    for sp, res in zip(specs, results):
        if sp.get("fatal") and res["rc"] == -6:
            res["rc"] = 0
        elif sp.get("fatal") and res["rc"] == 0:
            raise core.Inconclusive("child with a fatal message did not abort")
        if res["rc"] != 0:
            ctx.violation("C19:child-died:rc=%s:mode=%s" % (res["rc"], sp["mode"]), "%s :: %s" % (sp["keys"] or sp["oneline"], res["stderr"][-600:]), sp)
            continue
        if res["swallowed"]:
            raise core.Inconclusive("Qt's own category rules swallowed %d messages before the handler (environment not clean)" % res["swallowed"])
        for bn, berr in res["bad"]:
            ctx.violation("C19:unreadable-rotated-file", "%s: %s" % (bn, berr), sp)
        if sp["mode"] == "oneline":
            v, n = judge_oneline(sp, res)
        elif sp.get("tty"):
            v, n = judge_tty(sp, res)
            if n is None:
                continue
            ttys += 1
        else:
            v, n = judge_ini(sp, res)
            if n is None:
                continue
        evals += 1
        qualifying += n
        modes[sp["mode"]] = modes.get(sp["mode"], 0) + 1
        for key, what in v:
            ctx.violation(key, "%s :: %s" % ({"mode": sp["mode"], "keys": sp["keys"], "oneline": sp["oneline"]}, what), sp)
        sig = (sp["mode"], tuple(sorted((k, str(val)[:30]) for k, val in sp["keys"].items())), str(sp["oneline"]))
        if n > 0:
            distinct.add(sig)
        if len(samples) < 3 and n > 3:
            samples.append({"mode": sp["mode"], "keys": sp["keys"], "oneline": sp["oneline"], "messages": len(sp["msgs"]), "qualifying": n,
                            "stdout_lines": len(lines_of(res["stdout"])), "stderr_lines": len(lines_of(res["stderr"])), "files": res["files"]})
    nb = db = amb = 0
    maxlen = 0
    nc = jc = 0
    if not ctx.replay:
        nb, db, amb, maxlen = run_part_b(ctx)
        nc, jc = run_part_c(ctx)
    cov = {
        "evaluations": evals + nb,
        "distinct_nontrivial": len(distinct) + db,
        "rule": "part A: one child per configuration (INI key subset written by QSettings and applied via configureFromIniFile or "
                "configure(QSettings); or a one-line configure() tuple) x a generated message stream through QLoggingCategory/QMessageLogger; "
                "non-trivial = at least one message qualifies; distinct by (mode, key/value set).  Part B: every install/restore/foreign "
                "history over %s up to length %d from two initial handlers, plus random ones up to length 30; non-trivial = contains an "
                "install and a restore" % (HOPS, maxlen),
        "samples": samples,
        "part_a_children": evals, "part_a_by_mode": modes, "part_a_qualifying_messages": qualifying, "part_a_children_on_pseudo_terminals": ttys,
        "part_b_histories": nb, "part_b_histories_with_accept_set": amb, "part_b_exhaustive_up_to_length": maxlen,
        "part_c_pretty_formatter_cases": nc, "part_c_lines_judged": jc,
        "not_modelled": "column widths and colours of the pretty formatter (part A: containment and multiplicity; part C: documented shape and thread column)",
    }
    return ctx.finish(cov, ["LC_ALL=C.UTF-8", "QT_LOGGING_RULES unset, empty HOME/XDG config dirs", "stdout/stderr are pipes, for a share of the INI configurations pseudo-terminals"],
                      min_evals=1 if ctx.replay else 100)
