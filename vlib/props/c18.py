"""C18 — Sentry events are valid Store-API payloads that carry the message faithfully."""
import datetime
import json
import random
import re

from .. import fmtdrv
from ..core import unhexs, hexs
from ..gen import TYPES, uni_text, uni_char, enc_msg, rand_ctx_bytes, CATS, FILES, FUNCS, u16, from_u16
# names that a sloppy comparison takes for the default category
NEAR_DEFAULT = [b"default.net", b"defaults", b"default2", b"defaul", b"Default", b"DEFAULT", b"xdefault", b"my.default", b"default ", b"d"]
from .c13 import gen_value, deep_equal, text_classes

LEVEL = "exploration"
LEVELS = {"debug": "debug", "info": "info", "warning": "warning", "critical": "error", "fatal": "fatal"}
ROUTED = {
    "appname": ("tags", "app_name"), "appversion": ("tags", "app_version"),
    "os_name": ("contexts.os", "name"), "os_version": ("contexts.os", "version"),
    "kernel_version": ("contexts.os", "kernel_version"), "build_abi": ("contexts.os", "build"),
    "cpu_arch": ("contexts.device", "arch"), "host_name": ("contexts.device", "name"),
}
EXTRA_OWN = ["line", "file", "thread_id"]
HEX32 = re.compile(r"^[0-9a-f]{32}$")


def gen_case(rnd):
    r = rnd.random()
    if r < 0.25:
        # around the 100-unit fingerprint boundary, incl. a surrogate pair straddling it
        n = rnd.choice([98, 99, 100, 101, 150])
        text = "".join(rnd.choice("abcxyz é") for _ in range(n))
        if rnd.random() < 0.6:
            pos = rnd.choice([98, 99, 100])
            text = text[:pos] + "\U0001f600" + text[pos:]
    elif r < 0.3:
        text = "".join(uni_char(rnd) for _ in range(rnd.randint(90, 400)))
    else:
        text = uni_text(rnd, 40)
    attrs = {}
    for name in ROUTED:
        if rnd.random() < 0.3:
            k = rnd.random()
            attrs[name] = uni_text(rnd, 12) if k < 0.7 else (rnd.randint(-99, 99) if k < 0.85 else (rnd.random() < 0.5))
    for _ in range(rnd.choice([0, 0, 1, 2, 4])):
        k = rnd.random()
        if k < 0.15:
            name = rnd.choice(EXTRA_OWN)
        elif k < 0.6:
            name = rnd.choice(["user", "seq_number", "app_name", "os", "Appname", "host", "tags", "extra"]) + rnd.choice(["", "2"])
        else:
            name = uni_text(rnd, 8, empty_p=0.02)
        if name in ROUTED:
            continue
        attrs[name] = gen_value(rnd)
    m = {
        "type": rnd.randrange(5), "line": rnd.choice([0, 1, 42, rnd.randint(0, 99999)]),
        "file": rnd.choice([None, b""] + FILES) if rnd.random() < 0.6 else rand_ctx_bytes(rnd),
        "func": rnd.choice([None, b""] + FUNCS) if rnd.random() < 0.6 else rand_ctx_bytes(rnd, 60),
        "cat": rnd.choice(CATS + [b"", b"default"] + NEAR_DEFAULT) if rnd.random() < 0.7 else rand_ctx_bytes(rnd, 20),
        "text": text, "attrs": list(attrs.items()),
    }
    return m


def variant_to_string(v):
    """QVariant::toString() for the value kinds generated for routed names"""
    if isinstance(v, bool):
        return "true" if v else "false"
    if isinstance(v, int):
        return str(v)
    return v


def get_path(obj, path):
    cur = obj
    for p in path.split("."):
        if not isinstance(cur, dict) or p not in cur:
            return None
        cur = cur[p]
    return cur


def fingerprint_accept(text):
    units = u16(text)
    acc = []
    first100 = units[:100]
    acc.append(from_u16(first100))
    if len(units) > 100 and 0xd800 <= units[99] <= 0xdbff:
        acc.append(from_u16(units[:99]))           # pair-preserving
    acc.append(text[:100])                          # code points
    return acc


def check_one(m, toks, seen_ids):
    out = unhexs(toks[0])
    time_ms, thread_id = int(toks[1]), int(toks[2])
    bad = []
    try:
        ev, end = json.JSONDecoder().raw_decode(out)
    except ValueError as e:
        return [("C18:invalid-json", "%s in %r" % (e, out[:200]))]
    if out[end:].strip(" \t\r\n") != "" or not isinstance(ev, dict):
        return [("C18:not-one-object", repr(out[:100]))]
    eid = ev.get("event_id")
    if not isinstance(eid, str) or not HEX32.match(eid):
        bad.append(("C18:event-id-format", repr(eid)))
    elif eid in seen_ids:
        bad.append(("C18:event-id-reused", eid))
    else:
        seen_ids.add(eid)
    exp_ts = datetime.datetime.fromtimestamp(time_ms // 1000, datetime.timezone.utc).strftime("%Y-%m-%dT%H:%M:%SZ")
    if ev.get("timestamp") != exp_ts:
        bad.append(("C18:timestamp", "expected %s got %r" % (exp_ts, ev.get("timestamp"))))
    lvl = LEVELS[TYPES[m["type"]]]
    if ev.get("level") != lvl:
        bad.append(("C18:level", "expected %s got %r" % (lvl, ev.get("level"))))
    msg = ev.get("message")
    if not isinstance(msg, dict) or msg.get("formatted") != m["text"]:
        bad.append(("C18:message", "expected %r got %r" % (m["text"][:80], msg)))
    cat = "" if m["cat"] is None else m["cat"].decode("ascii")
    if cat not in ("", "default"):
        if ev.get("logger") != cat:
            bad.append(("C18:logger", "expected %r got %r" % (cat, ev.get("logger"))))
    elif "logger" in ev:
        bad.append(("C18:logger", "present for default category: %r" % ev.get("logger")))
    fp = ev.get("fingerprint")
    if not (isinstance(fp, list) and len(fp) == 3 and fp[0] == lvl and fp[1] == (cat or "default")
            and fp[2] in fingerprint_accept(m["text"])):
        bad.append(("C18:fingerprint", "level=%s cat=%r text=%r got %r" % (lvl, cat, m["text"][:110], fp)))
    # attribute conservation: exactly once, value intact
    attrs = dict(m["attrs"])
    extra = ev.get("extra") if isinstance(ev.get("extra"), dict) else {}
    for name, val in attrs.items():
        places = []
        if name in ROUTED:
            path, key = ROUTED[name]
            slot = get_path(ev, path)
            if isinstance(slot, dict) and key in slot:
                places.append(("slot", slot[key]))
            if name in extra:
                places.append(("extra", extra[name]))
            if len(places) != 1:
                bad.append(("C18:attr-routing", "routed attribute %r found in %r" % (name, places)))
            elif places[0][0] == "slot" and places[0][1] != variant_to_string(val):
                bad.append(("C18:attr-value", "routed attribute %r expected %r got %r" % (name, variant_to_string(val), places[0][1])))
            elif places[0][0] == "extra" and not deep_equal(val, places[0][1]):
                bad.append(("C18:attr-value", "attribute %r expected %r got %r" % (name, val, places[0][1])))
        else:
            if name not in extra:
                bad.append(("C18:attr-missing", "attribute %r not under extra (keys %r)" % (name, sorted(extra)[:10])))
            elif not deep_equal(val, extra[name]):
                bad.append(("C18:attr-value", "attribute %r expected %r got %r" % (name, val, extra[name])))
    # nothing else may appear under extra (it would be an attribute the message does not have)
    for k in extra:
        if k not in attrs and k not in EXTRA_OWN:
            bad.append(("C18:extra-unknown", "extra has %r which is not an attribute" % k))
    # a routed slot must not exist without its attribute
    for name, (path, key) in ROUTED.items():
        slot = get_path(ev, path)
        if name not in attrs and isinstance(slot, dict) and key in slot:
            bad.append(("C18:slot-without-attr", "%s.%s present without attribute %s" % (path, key, name)))
    return bad


def run(ctx):
    if ctx.replay:
        rep = json.load(open(ctx.replay))["case"]
        m = rep["m"]
        for k in ("file", "func", "cat"):
            m[k] = None if m[k] is None else bytes.fromhex(m[k])
        m["attrs"] = [tuple(a) for a in m["attrs"]]
        cases = [m]
    else:
        rnd = random.Random(ctx.seed * 49979687 + 18)
        cases = [gen_case(rnd) for _ in range(ctx.pick(30000, 1500000))]
    lines = ["Y %d %s %s %s" % (i, hexs("qtlogger.sentry"), hexs("1.0.0"), enc_msg(m)) for i, m in enumerate(cases)]
    results, crashes = fmtdrv.run_cases(ctx, "san", lines, chunk=500, lags=fmtdrv.LAGS, tzs=fmtdrv.TZS)

    def rep_of(m):
        mm = dict(m)
        for k in ("file", "func", "cat"):
            mm[k] = None if m[k] is None else m[k].hex()
        return {"m": mm}
    crashed = set()
    for cid, line, kind, err in crashes:
        crashed.add(cid)
        if kind != "skipped":
            ctx.violation("C18:crash:" + kind, err[-600:], rep_of(cases[int(cid)]))
    seen = set()
    distinct = set()
    samples = []
    n = 0
    for i, m in enumerate(cases):
        if str(i) in crashed:
            continue
        n += 1
        for key, what in check_one(m, results[str(i)], seen):
            ctx.violation(key, "text=%r attrs=%r :: %s" % (m["text"][:60], m["attrs"][:3], what), rep_of(m))
        names = tuple(sorted(k for k, _ in m["attrs"] if k in ROUTED or k in EXTRA_OWN))
        sig = (m["type"], text_classes(m["text"]), names, len(m["attrs"]) - len(names),
               (m["cat"] or b"") in (b"", b"default"), min(len(u16(m["text"])), 101))
        if m["attrs"] or sig[1]:
            distinct.add(sig)
        if len(samples) < 3 and names and i % 301 == 0:
            samples.append({"message": m["text"][:80], "attributes": [[k, v] for k, v in m["attrs"]][:5],
                            "event": unhexs(results[str(i)][0])[:500]})
    cov = {
        "evaluations": n,
        "distinct_nontrivial": len(distinct),
        "rule": "messages over well-formed Unicode (incl. texts of 98..101 units with a surrogate pair straddling unit 100); random "
                "subsets of the eight specially-routed attribute names (string/number/bool values) + arbitrary other names incl. "
                "ones colliding with extra's own keys; all types; default/empty/custom categories; every obligation of the statement "
                "checked on the parsed event; event ids accumulated in one set over the run; non-trivial = has attributes or special "
                "text; distinct by (type, text classes, routed names, other-attr count, default-category, length class)",
        "samples": samples or [{"message": cases[0]["text"]}],
        "distinct_event_ids": len(seen),
    }
    return ctx.finish(cov, ["process time zone cycles through UTC and POSIX TZ strings (JST-9, <-0330>3:30, CET with DST, EST5EDT); message time taken from the driver-reported epoch milliseconds",
                            "fingerprint prefix accept-set: first 100 UTF-16 units, 99 when the 100th would split a pair, or 100 code points"],
                      min_evals=1 if ctx.replay else 1000)
