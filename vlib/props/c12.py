"""C12 — pattern formatting follows the documented mini-language; values are verbatim."""
import json
import random
import re

from .. import fmtdrv, gen
from .. import ref_pattern as ref
from ..core import hexs, unhexs
from ..gen import TYPES, uni_text, uni_char, enc_msg, u16len, ASCII_PRINT

LEVEL = "exploration"

LIT_ALPHA = list(" []()#|-_=.,:;<>!?/'\"abcXYZ019") + ["%", "é", "中", "\U0001f600", "{", "}", "\t"]
FILL_CHARS = list(" 0*._-#=x~") + ["é", "中", "<", ">", "^", "!"]
ATTR_NAMES = ["seq_number", "user", "appname", "host", "a", "x.y", "req-id", "é", "User", "Message", "types", " n "]
BUILTINS = ["message", "type", "category", "file", "shortfile", "line", "function", "func", "threadid", "qthreadptr"]
TIME_FORMATS = ["yyyy-MM-dd hh:mm:ss", "hh:mm:ss.zzz", "dd.MM.yyyy", "yyyy-MM-ddThh:mm:ss.zzz", "hh:mm", "zzz", "yyyy",
                "MM/dd/yyyy hh_mm", "ss,zzz"]
UNIX_DIRS = ["/home/user/project", "/home/user/project/src", "/usr/src", "/a", "/opt/build dir"]
IDENT = ["foo", "bar", "MyClass", "ns", "detail", "run", "x1", "_impl", "Widget", "onEvent", "get_value"]
RET_TYPES = ["void", "int", "bool", "QString", "const QString &", "QList<int>", "std::map<int, std::string>", "char *",
             "unsigned long", "T &&", "auto", "static void", "virtual int"]
ARG_TYPES = ["int", "QString", "const QString &", "char **", "QList<QPair<int, QString> >", "void (*)(int)", "double", "T"]


def gen_literal(rnd, minlen=0, maxlen=8, plain=False):
    n = rnd.randint(minlen, maxlen)
    alpha = list(" []()#|-_=.,;abcXYZ019") if plain else LIT_ALPHA
    chars = [rnd.choice(alpha) for _ in range(n)]
    # write as pattern text: '%' must be escaped unless followed by something harmless
    out = []
    for i, c in enumerate(chars):
        if c == "%":
            nxt = chars[i + 1] if i + 1 < len(chars) else None
            if nxt is not None and nxt not in "{%" and rnd.random() < 0.4:
                out.append("%")
            else:
                out.append("%%")
        else:
            out.append(c)
    return "".join(out)


def gen_spec(rnd):
    w = rnd.choice([1, 2, 3, 5, 8, 10, 12, 20, 40, rnd.randint(1, 60)])
    if rnd.random() < 0.003:
        w = rnd.choice([255, 256, 1000, 4096, 32767, 32768, 65535, 65536, 65541, 70000, 131072])   # column widths nobody types by hand
    r = rnd.random()
    if r < 0.3:
        s = rnd.choice("<^>") + str(w)
    elif r < 0.6:
        s = rnd.choice(FILL_CHARS) + rnd.choice("<^>") + str(w)
    elif r < 0.72:
        s = str(w) + "!"
    elif r < 0.85:
        s = rnd.choice("<^>") + str(w) + "!"
    else:
        s = rnd.choice(FILL_CHARS) + rnd.choice("<^>") + str(w) + "!"
    return ":" + s


def gen_func(rnd):
    """plain grammar: <ret> <qualified-name>(<args>) [quals]  -> (signature bytes, clean name)"""
    name = "::".join(rnd.choice(IDENT) for _ in range(rnd.randint(1, 4)))
    args = ", ".join(rnd.choice(ARG_TYPES) for _ in range(rnd.randint(0, 3)))
    sig = "%s %s(%s)" % (rnd.choice(RET_TYPES), name, args)
    if rnd.random() < 0.3:
        sig += rnd.choice([" const", " noexcept", " const noexcept", " override", " final"])
    return sig.encode("ascii"), name


def gen_message(rnd, attr_pool):
    r = rnd.random()
    if r < 0.7:
        d = rnd.choice(UNIX_DIRS)
        f = (d + "/" + rnd.choice(["main.cpp", "a b.cpp", "x.h", "sub/y.cpp"])).encode("ascii")
    elif r < 0.8:
        f = rnd.choice([b"main.cpp", b"", b"relative/p.cpp"])
    elif r < 0.85:
        f = None
    else:
        f = ("/" + "".join(rnd.choice(ASCII_PRINT) for _ in range(rnd.randint(1, 20)))).replace("\\", "_").encode("ascii")
    if rnd.random() < 0.8:
        func, clean = gen_func(rnd)
    else:
        func, clean = rnd.choice([(None, ""), (b"", ""), (b"main", "main")])
    attrs = {}
    for name in attr_pool:
        if rnd.random() < 0.55:
            k = rnd.random()
            attrs[name] = uni_text(rnd, 14) if k < 0.6 else (rnd.randint(-5, 10 ** 6) if k < 0.85 else (rnd.random() < 0.5))
            if k < 0.04:
                # set, but to nothing: a null string (applicationVersion() when none was given), an empty one, an invalid QVariant
                attrs[name] = rnd.choice([gen.NULLSTR, "", None])
    cat = rnd.choice([b"default", b"network", b"app.ui", b"app.ui.dialogs", b"", None, b"x"]) if rnd.random() < 0.8 else \
        "".join(rnd.choice(ASCII_PRINT) for _ in range(rnd.randint(1, 16))).encode("ascii")
    return {"type": rnd.randrange(5), "line": rnd.choice([0, 7, 42, 99999, rnd.randint(0, 10 ** 6)]),
            "file": f, "func": func, "cat": cat, "text": uni_text(rnd, 24), "attrs": list(attrs.items()),
            "func_clean": clean}


def gen_pattern(rnd):
    """returns (pattern, attr names used, has feature flags)"""
    parts = []
    used = set()
    feats = set()
    n = rnd.randint(1, 8)
    in_if = False
    need_lit_min = 0   # the next literal must have at least this many plain chars (remove-after of an optional attribute)
    i = 0
    while i < n or need_lit_min or in_if:
        i += 1
        r = rnd.random()
        if need_lit_min:
            if need_lit_min > 1 and rnd.random() < 0.2:
                # fewer literal characters follow than the remove-after count asks for
                parts.append(gen_literal(rnd, 1, need_lit_min - 1, plain=True))
                feats.add("after-exceeds-literal")
                if rnd.random() < 0.5:
                    parts.append("%{message}")
            else:
                parts.append(gen_literal(rnd, need_lit_min + 1, need_lit_min + 4, plain=True))
            need_lit_min = 0
            continue
        if in_if and (i > n or r < 0.25):
            parts.append("%{endif}")
            in_if = False
            continue
        if r < 0.3:
            parts.append(gen_literal(rnd, 1, 8))
        elif r < 0.55:
            b = rnd.choice(BUILTINS)
            if b == "shortfile" and rnd.random() < 0.4:
                b = "shortfile " + rnd.choice(UNIX_DIRS + ["/nonexistent/base"])
            sp = gen_spec(rnd) if rnd.random() < 0.5 else ""
            if sp:
                feats.add("spec")
            parts.append("%{" + b + sp + "}")
        elif r < 0.65:
            k = rnd.random()
            if k < 0.35:
                t = "time"
            elif k < 0.85:
                t = "time " + rnd.choice(TIME_FORMATS)
            else:
                t = "time boot"
            sp = gen_spec(rnd) if rnd.random() < 0.25 else ""
            parts.append("%{" + t + sp + "}")
            feats.add("time")
        elif r < 0.8:
            name = rnd.choice(ATTR_NAMES)
            used.add(name)
            sp = gen_spec(rnd) if rnd.random() < 0.4 else ""
            parts.append("%{" + name + sp + "}")
            feats.add("attr")
        elif r < 0.92:
            # optional attribute framed by literals that are long enough
            name = rnd.choice(ATTR_NAMES)
            used.add(name)
            nb = rnd.choice([0, 0, 1, 1, 2, 3])
            na = rnd.choice([0, 0, 1, 1, 2, 3, 5])
            if nb:
                parts.append(gen_literal(rnd, nb + 1, nb + 3, plain=True))
            form = "?"
            if nb and not na:
                form = "?%d" % nb
            elif na:
                form = "?%s,%d" % (nb if nb else "", na)
            parts.append("%{" + name + form + "}")
            need_lit_min = na
            feats.add("optional")
        elif not in_if:
            parts.append("%{if-" + rnd.choice(TYPES) + "}")
            in_if = True
            feats.add("cond")
        else:
            parts.append(gen_literal(rnd, 1, 4))
    if rnd.random() < 0.05:
        parts.append("%{unterminated")
        feats.add("unterminated")
    if rnd.random() < 0.05:
        parts.append("%")
    return "".join(parts), used, feats


def gen_hostile_pattern(rnd):
    """anything goes: for sanitizer / termination verdicts; functional verdict only if the reference says core"""
    atoms = ["%{", "}", "%", "%%", ":", "?", ",", "<", ">", "^", "!", "if-", "endif", "time ", "shortfile ", "message", "type",
             "0", "9", "99999", " ", "a", "​", "{", "if-debug", "%{if-info}", "%{endif}", "%{user?1,1}", "%{x?9}", "-1"]
    return "".join(rnd.choice(atoms) for _ in range(rnd.randint(1, 14)))


def gen_case(rnd):
    hostile = rnd.random() < 0.12
    if hostile:
        pattern, used, feats = gen_hostile_pattern(rnd), set(rnd.sample(ATTR_NAMES, 2)), {"hostile"}
    else:
        pattern, used, feats = gen_pattern(rnd)
    pool = sorted(used | set(rnd.sample(ATTR_NAMES, rnd.randint(0, 2))))
    msgs = [gen_message(rnd, pool) for _ in range(rnd.randint(1, 3))]
    if not hostile and rnd.random() < 0.25:
        # literal white space at the very beginning / end of the pattern is literal text like any other
        pattern = rnd.choice(["", " ", "  ", "\t", "\u00a0"]) + pattern + rnd.choice(["", " ", "\n", " \n", "\u3000"])
    return {"pattern": pattern, "msgs": msgs, "feats": sorted(feats), "hostile": hostile, "fluent": rnd.random() < 0.25}


def case_line(i, c):
    # a share of the patterns is installed through the fluent SimplePipeline::format(pattern) instead of a PatternFormatter built
    # directly (the keywords that entry point reserves are left to the direct path)
    via = "PF" if c.get("fluent") and c["pattern"] not in ("default", "qt", "pretty") else "P"
    return "%s %s %s %d %s" % (via, i, hexs(c["pattern"]), len(c["msgs"]), " ".join(enc_msg(m) for m in c["msgs"]))


def ser(c):
    out = {"pattern": c["pattern"], "feats": c["feats"], "hostile": c["hostile"], "fluent": c.get("fluent", False), "msgs": []}
    for m in c["msgs"]:
        mm = dict(m)
        for k in ("file", "func", "cat"):
            mm[k] = None if m[k] is None else m[k].hex()
        out["msgs"].append(mm)
    return out


def deser(d):
    c = {"pattern": d["pattern"], "feats": d["feats"], "hostile": d["hostile"], "fluent": d.get("fluent", False), "msgs": []}
    for m in d["msgs"]:
        mm = dict(m)
        for k in ("file", "func", "cat"):
            mm[k] = None if m[k] is None else bytes.fromhex(m[k])
        mm["attrs"] = [tuple(a) for a in m["attrs"]]
        c["msgs"].append(mm)
    return c


ZW = "​"


def zwsp_defect_model(pattern, msg, got):
    """Known-finding model for the in-band U+200B marker (only used while that finding is open):
    observed == some acceptable output with every U+200B removed, possibly with marker-chop of the following literal."""
    return None


PROCESS_RE = re.compile(r"^(\d+\.\d{3})\|(\d+\.\d{3})$")


def run(ctx):
    if ctx.replay:
        cases = [deser(json.load(open(ctx.replay))["case"])]
    else:
        rnd = random.Random(ctx.seed * 86028121 + 12)
        cases = [gen_case(rnd) for _ in range(ctx.pick(30000, 1500000))]
    lines = [case_line(i, c) for i, c in enumerate(cases)]
    # process/boot time stream (shape + monotonicity)
    stream_msg = {"type": 0, "line": 1, "file": b"f.cpp", "func": b"void f()", "cat": b"c", "text": "x", "attrs": []}
    lines.append("P stream %s 50 %s" % (hexs("%{time process}|%{time boot}"), " ".join(enc_msg(stream_msg) for _ in range(50))))
    results, crashes = fmtdrv.run_cases(ctx, "san", lines, chunk=500, lags=fmtdrv.LAGS, tzs=fmtdrv.TZS, uptimes=fmtdrv.UPTIMES)
    crashed = set()
    for cid, line, kind, err in crashes:
        crashed.add(cid)
        if kind != "skipped" and cid != "stream":
            ctx.violation("C12:crash:" + kind, "pattern=%r :: %s" % (cases[int(cid)]["pattern"], err[-600:]), ser(cases[int(cid)]))
    core_evals = corner = 0
    corner_reasons = {}
    accept_multi = 0
    distinct = set()
    samples = []
    for i, c in enumerate(cases):
        if str(i) in crashed:
            continue
        toks = results[str(i)]
        for j, m in enumerate(c["msgs"]):
            got = unhexs(toks[4 * j]) if toks[4 * j] != "~" else None
            mm = dict(m)
            mm["attrs"] = dict(m["attrs"])
            mm["time_ms"], mm["thread_id"], mm["steady_ms"] = int(toks[4 * j + 1]), int(toks[4 * j + 2]), int(toks[4 * j + 3])
            mm["tz"] = fmtdrv.tz_of_case(i, 500, fmtdrv.TZS) if not ctx.replay else "UTC"
            acc, reason = ref.accept_set(c["pattern"], mm)
            if acc is None:
                corner += 1
                corner_reasons[reason] = corner_reasons.get(reason, 0) + 1
                continue
            core_evals += 1
            if len(acc) > 1:
                accept_multi += 1
            # compare on UTF-16 code units: two lone surrogates produced by adjacent truncations re-form a pair when concatenated, which
            # Python would otherwise see as a different string than the same units decoded as one astral character
            u = lambda x: None if x is None else x.encode("utf-16-le", "surrogatepass")
            if u(got) not in {u(a) for a in acc}:
                exp = sorted(acc)[0]
                vals = [m["text"]] + [v for _, v in m["attrs"] if isinstance(v, str)]
                if any(ZW in v for v in vals) or ZW in c["pattern"]:
                    key = "C12:zwsp-in-band-marker"
                else:
                    key = "C12:output"
                ctx.violation(key, "pattern=%r type=%s text=%r attrs=%r expected(one of %d)=%r got=%r"
                              % (c["pattern"], TYPES[m["type"]], m["text"], m["attrs"], len(acc), exp, got),
                              ser({**c, "msgs": [m]}))
            ntok = len(ref.tokenize(c["pattern"]))
            if ntok >= 3 and (set(c["feats"]) & {"spec", "cond", "optional"}):
                classes = tuple(sorted({cl for v in [m["text"]] for cl in _classes(v)}))
                distinct.add((re.sub(r"[A-Za-z0-9]+", "w", c["pattern"])[:80], classes, m["type"]))
            if len(samples) < 4 and i % 997 == 0 and not c["hostile"]:
                samples.append({"pattern": c["pattern"], "type": TYPES[m["type"]], "message": m["text"],
                                "attributes": [[k, v] for k, v in m["attrs"]], "output": got})
    # stream
    if "stream" in results:
        toks = results["stream"]
        prev = (-1.0, -1.0)
        for j in range(50):
            mo = PROCESS_RE.match(unhexs(toks[4 * j]))
            if not mo:
                ctx.violation("C12:time-process-shape", "got %r" % unhexs(toks[4 * j]), None)
                break
            p, b = float(mo.group(1)), float(mo.group(2))
            if p < prev[0] or b < prev[1] or b < p:
                ctx.violation("C12:time-process-monotonic", "process %s boot %s prev %s" % (p, b, prev), None)
                break
            prev = (p, b)
    cov = {
        "evaluations": core_evals,
        "distinct_nontrivial": len(distinct),
        "rule": "patterns generated over the documented grammar (built-in placeholders, time formats, attributes present/missing/"
                "optional with remove-before/after counts framed by literals, all fill/align/width/! forms, conditionals, %% escapes, "
                "lone %, unterminated %{) x messages whose text/attribute values are arbitrary well-formed Unicode (incl. % { } : "
                "U+200B/C, U+FEFF, combining marks, astral) x all types; output must be in the reference's accept-set (size > 1 only at "
                "documented ambiguities); 12% hostile patterns get a functional verdict only when the reference classifies them as core; "
                "non-trivial = >= 3 tokens with a spec, conditional or optional attribute; distinct by (pattern shape, value classes, type)",
        "samples": samples or [{"pattern": cases[0]["pattern"]}],
        "corner_cases_sanitizer_only": corner,
        "corner_reasons": corner_reasons,
        "cases_with_accept_set_gt1": accept_multi,
        "patterns": len(cases),
    }
    return ctx.finish(cov, ["process time zone cycles through UTC and POSIX TZ strings incl. DST rules (local time computed by the C library via Python's time module); virtual dates stay before 2035", "reference written from docs/api/formatters.md; accept-sets: missing non-optional attribute "
                            "(echo or empty), %{time} with/without ms, width/truncation in UTF-16 units or code points, "
                            "remove-before count exceeding the output (nothing or everything removed)"],
                      min_evals=1 if ctx.replay else 1000)


def _classes(s):
    c = set()
    for ch in s:
        o = ord(ch)
        if ch in "%{}:":
            c.add("syntax")
        elif o in (0x200b, 0x200c, 0xfeff):
            c.add("zw")
        elif o > 0xffff:
            c.add("astral")
        elif 0x300 <= o < 0x370:
            c.add("combining")
        elif o > 0x7f:
            c.add("bmp")
        elif o < 0x20:
            c.add("ctl")
    return c
