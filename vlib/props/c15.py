"""C15 — category rules decide exactly as ordered Qt-style rules prescribe."""
import json
import random

from .. import fmtdrv
from ..core import hexs, hexb
from ..gen import TYPES

LEVEL = "exploration"
WS = " \t"
ASCII_WS = " \t\n\r\x0b\x0c"
TYPE_SUFFIX = ["debug", "info", "warning", "critical"]
META = list(".+()[]{}^$|\\?")


# ------------------------------------------------------------------ reference (no regex)

def glob_match(pat, s):
    """anchored, case-sensitive, '*' = any run (iterative two-pointer matcher)"""
    p = i = 0
    star = -1
    mark = 0
    while i < len(s):
        if p < len(pat) and pat[p] != "*" and pat[p] == s[i]:
            p += 1
            i += 1
        elif p < len(pat) and pat[p] == "*":
            star = p
            mark = i
            p += 1
        elif star != -1:
            p = star + 1
            mark += 1
            i = mark
        else:
            return False
    while p < len(pat) and pat[p] == "*":
        p += 1
    return p == len(pat)


def parse_rules(text):
    rules = []
    for line in text.replace(";", "\n").split("\n"):
        if line == "":
            continue
        t = line.strip(ASCII_WS)
        eq = t.rfind("=")
        if eq <= 0:
            continue
        val = t[eq + 1:].lstrip(ASCII_WS)
        if val not in ("true", "false"):
            continue
        lhs = t[:eq].rstrip(ASCII_WS)
        if lhs == "" or any(c in ASCII_WS for c in lhs):
            continue
        typ = None
        for sfx in TYPE_SUFFIX:
            if lhs.endswith("." + sfx) and len(lhs) > len(sfx) + 1:
                typ = sfx
                lhs = lhs[:-(len(sfx) + 1)]
                break
        rules.append((lhs, typ, val == "true"))
    return rules


def decide(rules, cat, typ):
    enabled = True
    for pat, rtyp, val in rules:
        if rtyp is not None and rtyp != typ:
            continue
        if glob_match(pat, cat):
            enabled = val
    return enabled


def qt_suffix_quirk(rules, cat):
    """Qt 5.15's QLoggingRule::pass locates a '*suffix' rule with indexOf (first occurrence) and only then
    checks that it sits at the end, so 'x.db.b' does not match '*b' there.  Such probes are left out of
    the Qt comparison (Qt's quirk, not the reference's or qtlogger's)."""
    for pat, _, _ in rules:
        if pat.startswith("*") and not pat.endswith("*"):
            sfx = pat[1:]
            if sfx and cat.endswith(sfx) and cat.find(sfx) != len(cat) - len(sfx):
                return True
    return False


# ------------------------------------------------------------------ generation

NAME_ATOMS = ["app", "net", "ui", "db", "core", "a", "b", "x9", "io_dev", "sub-sys", "Qt", "APP"]


def gen_name(rnd, meta_p):
    parts = [rnd.choice(NAME_ATOMS) for _ in range(rnd.randint(1, 4))]
    s = ".".join(parts)
    if rnd.random() < meta_p:
        pos = rnd.randrange(len(s) + 1)
        s = s[:pos] + rnd.choice(META) + s[pos:]
    return s


def gen_pattern(rnd, qt_subset):
    if qt_subset:
        base = gen_name(rnd, 0.0)
        r = rnd.random()
        if r < 0.4:
            return base
        if r < 0.6:
            return base + "*"
        if r < 0.7:
            return base + ".*"
        if r < 0.8:
            return "*" + base
        if r < 0.9:
            return "*" + base + "*"
        return "*"
    base = gen_name(rnd, 0.35)
    r = rnd.random()
    if r < 0.25:
        return base
    out = list(base)
    for _ in range(rnd.randint(1, 3)):
        out.insert(rnd.randrange(len(out) + 1), "*")
    if rnd.random() < 0.1:
        out.insert(rnd.randrange(len(out) + 1), "**")
    return "".join(out)


GARBAGE = ["foo", "=true", "a b=true", "a=maybe", "a=true=", "a = b = yes", "   ", "true", "*=", "a.debug", "=",
           "a=TRUE", "a==", ".debug=false x", "# comment", "a =\ttrue extra"]


def gen_rule_line(rnd, qt_subset):
    pat = gen_pattern(rnd, qt_subset)
    if rnd.random() < 0.45:
        pat += "." + rnd.choice(TYPE_SUFFIX)
    elif not qt_subset and rnd.random() < 0.05:
        pat += "." + rnd.choice(["fatal", "Debug", "trace"])  # not type suffixes: part of the name
    val = rnd.choice(["true", "false"])
    ws = lambda: "".join(rnd.choice(WS) for _ in range(rnd.choice([0, 0, 0, 1, 2])))
    return ws() + pat + ws() + "=" + ws() + val + ws()


def gen_case(rnd):
    qt_subset = rnd.random() < 0.35
    n = rnd.randint(1, 12)
    lines = []
    for _ in range(n):
        if rnd.random() < (0.08 if qt_subset else 0.2):
            g = rnd.choice(GARBAGE)
            if qt_subset and "=" in g:
                g = "foo"  # Qt and qtlogger may legitimately differ on '=' garbage: keep out of Qt's subset
            lines.append(g)
        else:
            lines.append(gen_rule_line(rnd, qt_subset))
    seps = [rnd.choice([";", "\n", ";", "\n", ";;", "\n\n", ";\n"]) for _ in lines]
    text = "".join(l + s for l, s in zip(lines, seps))
    if rnd.random() < 0.5:
        text = text.rstrip(";\n")
    # probes derived from rule text
    probes = []
    pats = [p for p, _, _ in parse_rules(text)] or ["app"]
    for _ in range(rnd.randint(4, 10)):
        base = rnd.choice(pats)
        r = rnd.random()
        if r < 0.3:
            cat = base.replace("*", rnd.choice(["", "x", ".sub", "app.ui"]))
        elif r < 0.45:
            cat = base.replace("*", "")
            cat = cat[:rnd.randint(0, len(cat))]
        elif r < 0.6:
            cat = base.replace("*", "") + rnd.choice([".x", "x", ".", ".debug"])
        elif r < 0.7:
            cat = "".join(rnd.choice("aX.") if c in META else c for c in base.replace("*", "zz"))
        elif r < 0.85:
            cat = gen_name(rnd, 0.0 if qt_subset else 0.2)
        else:
            cat = base  # literal '*' etc.
        if qt_subset:
            cat = "".join(c for c in cat if c.isalnum() or c in "_.-")
            if cat.lower().startswith("qt") or cat in ("", "default"):
                cat = "z" + cat
        if cat == "" or any(ord(c) < 0x20 or ord(c) > 0x7e for c in cat):
            cat = "app"
        probes.append((cat, rnd.randrange(5)))
    if rnd.random() < 0.01:
        # a long-lived filter: hundreds of distinct categories pass through one instance (a category per object, per connection, per
        # plug-in), and the early ones come back afterwards
        many = []
        for j in range(rnd.choice([257, 300, 520, 700])):
            base = rnd.choice(pats).replace("*", rnd.choice(["", "x", ".sub"]))
            base = "".join(c for c in base if 0x20 < ord(c) < 0x7f) or "app"
            if qt_subset:
                base = "z" + "".join(c for c in base if c.isalnum() or c in "_.-")
            many.append((rnd.choice([base + ".%d" % j, base + "%d" % j, "%d." % j + base, gen_name(rnd, 0.0) + ".%d" % j]), rnd.randrange(5)))
        probes = probes + many + [(c, rnd.randrange(5)) for c, _ in many[:40]] + probes
    return text, qt_subset, probes


def case_line(i, case):
    text, qt, probes = case
    return "C %s %s %d %d %s" % (i, hexs(text), 1 if qt else 0, len(probes),
                                 " ".join("%s %d" % (hexb(c.encode("ascii")), t) for c, t in probes))


def run(ctx):
    if ctx.replay:
        rep = json.load(open(ctx.replay))["case"]
        cases = [(rep["rules"], rep["qt"], [tuple(p) for p in rep["probes"]])]
    else:
        rnd = random.Random(ctx.seed * 104729 + 15)
        cases = [gen_case(rnd) for _ in range(ctx.pick(20000, 700000))]
    lines = [case_line(i, c) for i, c in enumerate(cases)]
    # every third chunk runs with Qt's own logging variables set by the user: the filter's verdicts must depend on its rule list alone
    ENVS = [{}, {}, {"QT_LOGGING_RULES": "*.debug=false;app.*=true;net.warning=false;*.critical=false"}]
    results, crashes = fmtdrv.run_cases(ctx, "san", lines, chunk=1000, envs=ENVS)
    for cid, line, kind, err in crashes:
        if kind == "skipped":
            continue
        c = cases[int(cid)]
        ctx.violation("C15:crash:" + kind, "rules=%r :: %s" % (c[0], err[-600:]),
                      {"rules": c[0], "qt": c[1], "probes": c[2]})
    pairs = 0
    qt_pairs = 0
    distinct = set()
    verdicts = {True: 0, False: 0}
    samples = []
    crashed = {c[0] for c in crashes}
    for i, (text, qt, probes) in enumerate(cases):
        if str(i) in crashed:
            continue
        toks = results[str(i)]
        rules = parse_rules(text)
        for (cat, t), tok in zip(probes, toks):
            pairs += 1
            got = tok[0] == "1"
            exp = decide(rules, cat, TYPES[t])
            verdicts[exp] += 1
            if got != exp:
                ctx.violation("C15:verdict", "rules=%r category=%r type=%s expected %s got %s"
                              % (text, cat, TYPES[t], exp, got),
                              {"rules": text, "qt": False, "probes": [(cat, t)]})
                break
            # (the comparison with QLoggingCategory is meaningless where the environment overrides Qt's own registry)
            if qt and TYPES[t] != "fatal" and not qt_suffix_quirk(rules, cat) and not ENVS[(i // 1000) % len(ENVS)]:
                qt_pairs += 1
                qv = tok[1] == "y"
                if qv != exp:
                    # the reference and Qt disagree inside Qt's subset: the oracle itself is suspect
                    ctx.violation("C15:reference-vs-qt", "rules=%r category=%r type=%s reference %s Qt %s"
                                  % (text, cat, TYPES[t], exp, qv),
                                  {"rules": text, "qt": True, "probes": [(cat, t)]})
                    break
            # shape signature: (#rules, #typed, #wild, matched-any)
            matched = sum(1 for p, rt, _ in rules if (rt is None or rt == TYPES[t]) and glob_match(p, cat))
            distinct.add((len(rules), sum(1 for r in rules if r[1]), sum(r[0].count("*") for r in rules),
                          min(matched, 3), t, exp))
        if len(samples) < 4 and len(rules) >= 3 and i % 97 == 0:
            samples.append({"rules": text, "probes": [[c, TYPES[t]] for c, t in probes[:3]],
                            "verdicts": [tk[0] for tk in toks[:3]]})
    cov = {
        "evaluations": pairs,
        "distinct_nontrivial": len(distinct),
        "rule": "rule lists of 1..12 lines (overlapping dotted names, '*' anywhere, typed/untyped, regex metacharacters, "
                "whitespace around '=', garbage lines, ';' and newline separators) x probe categories derived from the rule text "
                "x all five types; verdict compared with a regex-free last-match-wins glob reference, and with QLoggingCategory "
                "on Qt's subset (fatal excluded); distinct = (rule count, typed count, wildcard count, matching-rule count, type, "
                "verdict) signatures, all of which involve at least one parsed rule or a garbage-only list",
        "samples": samples or [{"rules": cases[0][0]}],
        "rule_lists": len(cases),
        "pairs_also_checked_against_qt": qt_pairs,
        "expected_pass": verdicts[True], "expected_block": verdicts[False],
    }
    return ctx.finish(cov, ["categories are printable ASCII", "docs/api/filters.md sentence 'network.* also matches network' "
                            "contradicts the property statement (glob); the oracle follows the statement"],
                      min_evals=1 if ctx.replay else 1000)
