"""C20 — the single-header distribution is exactly the amalgamation of the sources."""
import os
import random
import shutil
import subprocess
import sys

from .. import build, fmtdrv, core

LEVEL = "other"


def run_generator(scratch):
    r = subprocess.run([sys.executable, os.path.join(scratch, "tools", "gen_qtlogger.h.py")],
                       stdout=subprocess.PIPE, stderr=subprocess.PIPE, cwd=scratch)
    if r.returncode != 0:
        raise core.Inconclusive("generator failed: %s" % r.stderr.decode()[-500:])
    with open(os.path.join(scratch, "qtlogger.h"), "rb") as f:
        return f.read()


def nonblank(b):
    return [l for l in b.split(b"\n") if l.strip()]


def first_diff(a, b):
    la, lb = a.split(b"\n"), b.split(b"\n")
    for i in range(min(len(la), len(lb))):
        if la[i] != lb[i]:
            return i + 1, la[i][:120], lb[i][:120]
    return min(len(la), len(lb)) + 1, b"<eof>" if len(la) <= len(lb) else la[len(lb)][:120], b"<eof>" if len(lb) <= len(la) else lb[len(la)][:120]


def twin_lines(ctx, n_each):
    """deterministic-output case lines drawn from the other properties' generators"""
    from . import c01, c12, c15, c16, c17
    rnd = random.Random(ctx.seed * 2654435761 % (2 ** 31) + 20)
    lines = []
    for i in range(n_each):
        lines.append(c15.case_line("c15_%d" % i, c15.gen_case(rnd)).replace("C c15_", "C c15_", 1))
        lines.append(c16.case_line("c16_%d" % i, c16.gen_case(rnd)))
        lines.append(c01.case_line("c01_%d" % i, c01.gen_case(rnd)))
        n = rnd.randint(1, 25)
        ops = rnd.choices(c17.OPS, k=n)
        lines.append("O c17_%d %d %s" % (i, n, " ".join(ops)))
        c = c12.gen_case(rnd)
        if not any(w in c["pattern"] for w in ("time", "thread")):
            lines.append(c12.case_line("c12_%d" % i, c))
    from ..core import hexs
    for j, tmpl in enumerate(["app.log", "b.%{time}.log", "c.%{time yyyy}.log", "d%{time hh_mm}x.log", "e.%{time  dd.MM}.txt", "%{time}"]):
        lines.append("FP fp_%d %s" % (j, hexs(tmpl)))
    return lines


OPTION_SETS = [[], ["QTLOGGER_NO_THREAD"], ["QTLOGGER_SYSLOG"], ["QTLOGGER_NO_THREAD", "QTLOGGER_SYSLOG"], ["QTLOGGER_DEBUG"]]


def option_probes(ctx, repo):
    """For every documented configuration macro set with which the library sources compile, a program that includes nothing but the
    top-level header must compile, link and run too.  -> (runs, list of (key, what))"""
    import glob
    from concurrent.futures import ThreadPoolExecutor
    qt = subprocess.run(["pkg-config", "--cflags", "Qt5Core"], stdout=subprocess.PIPE, text=True).stdout.split()
    qtl = subprocess.run(["pkg-config", "--libs", "Qt5Core"], stdout=subprocess.PIPE, text=True).stdout.split()
    srcs = sorted(glob.glob(os.path.join(repo, "src/qtlogger/**/*.cpp"), recursive=True))
    skip = ("androidlogsink", "oslogsink", "windebugsink", "sdjournalsink", "httpsink")
    srcs = [f for f in srcs if not any(k in f for k in skip)]
    probe = os.path.join(core.VERIF, "drivers", "probes", "hdr_probe.cpp")

    def one(opts):
        defs = ["-D" + o for o in opts]
        tag = "+".join(opts) or "default"
        # library sources with these options (syntax only: does this configuration exist?)
        for f in srcs:
            if "syslogsink" in f and "QTLOGGER_SYSLOG" not in opts:
                continue
            r = subprocess.run(["g++", "-std=gnu++17", "-fsyntax-only", "-fPIC", "-DQTLOGGER_STATIC"] + defs + qt +
                               ["-I" + os.path.join(repo, "src"), "-I" + os.path.join(repo, "src", "qtlogger"), f],
                               stdout=subprocess.PIPE, stderr=subprocess.STDOUT, text=True)
            if r.returncode != 0:
                return tag, "library-does-not-compile", r.stdout[-300:]
        d = os.path.join(ctx.tmp, "probe-" + tag)
        os.makedirs(os.path.join(d, "logs"), exist_ok=True)
        exe = os.path.join(d, "probe")
        r = subprocess.run(["g++", "-std=gnu++17", "-O0", "-fPIC"] + defs + qt + ["-I" + repo, probe, "-o", exe] + qtl,
                           stdout=subprocess.PIPE, stderr=subprocess.STDOUT, text=True)
        if r.returncode != 0:
            return tag, "header-only-build-fails", r.stdout[-700:]
        env = core.base_env(d)
        r = subprocess.run([exe, os.path.join(d, "logs")], env=env, stdout=subprocess.PIPE, stderr=subprocess.PIPE, text=True, timeout=120)
        if r.returncode != 0:
            return tag, "header-only-probe-crashes", "rc=%s %s" % (r.returncode, r.stderr[-300:])
        return tag, "ok", r.stdout
    with ThreadPoolExecutor(max_workers=len(OPTION_SETS)) as ex:
        results = list(ex.map(one, OPTION_SETS))
    found = []
    for tag, status, detail in results:
        if status in ("header-only-build-fails", "header-only-probe-crashes"):
            found.append(("C20:header-only:%s:%s" % (status, tag), detail))
    return results, found


def fix_ids(lines):
    # case_line() formats ids with %d in some modules: they were given strings, so rebuild defensively
    out = []
    for ln in lines:
        out.append(ln)
    return out


def run(ctx):
    repo = build.repo_path()
    scratch = os.path.join(ctx.tmp, "tree")
    os.makedirs(scratch)
    shutil.copytree(os.path.join(repo, "src"), os.path.join(scratch, "src"))
    shutil.copytree(os.path.join(repo, "tools"), os.path.join(scratch, "tools"))
    committed = open(os.path.join(repo, "qtlogger.h"), "rb").read()
    evaluations = 0
    distinct = set()
    # 1. byte comparison
    gen0 = run_generator(scratch)
    evaluations += 1
    if gen0 != committed:
        ln, a, b = first_diff(committed, gen0)
        ctx.violation("C20:header-differs-from-generator-output",
                      "qtlogger.h (%d bytes) != generator output (%d bytes); first difference at line %d: committed %r generated %r"
                      % (len(committed), len(gen0), ln, a, b), {"line": ln})
    # 2. per-file sensitivity probes
    srcdir = os.path.join(scratch, "src", "qtlogger")
    files = []
    for root, _, names in os.walk(srcdir):
        for nm in sorted(names):
            if nm.endswith((".h", ".cpp")):
                files.append(os.path.join(root, nm))
    files.sort()
    base_nb = nonblank(gen0)
    unreflected = []
    samples = []
    for n, path in enumerate(files):
        rel = os.path.relpath(path, scratch)
        orig = open(path, "rb").read()
        marker = ("// VERIF-MARKER-%d-%s" % (n, os.path.basename(path))).encode()
        with open(path, "wb") as f:
            f.write(orig + (b"" if orig.endswith(b"\n") else b"\n") + marker + b"\n")
        out = run_generator(scratch)
        with open(path, "wb") as f:
            f.write(orig)
        evaluations += 1
        cnt = out.count(marker)
        if cnt == 0:
            unreflected.append(rel)
            ctx.violation("C20:unreflected-source:" + rel, "an edit to %s does not reach the generated header" % rel, {"file": rel})
            continue
        nb = nonblank(out)
        rest = [l for l in nb if marker not in l]
        if cnt != 1 or rest != base_nb:
            ctx.violation("C20:probe-not-exact:" + rel, "marker in %s appears %d times / output differs by more than the marker" % (rel, cnt),
                          {"file": rel})
            continue
        distinct.add(rel)
        if len(samples) < 3:
            samples.append({"edited": rel, "marker_found_once_in_generated_header": True})
    # 3. behavioural twin: library build vs header-only build on the same case file
    lines = twin_lines(ctx, ctx.pick(300, 6000))
    res_lib, cr_lib = fmtdrv.run_cases(ctx, "san", lines, chunk=300)
    res_hdr, cr_hdr = fmtdrv.run_cases(ctx, "hdr", lines, chunk=300)
    twin_cmp = 0
    for ln in lines:
        cid = ln.split()[1]
        a, b = res_lib.get(cid), res_hdr.get(cid)
        if a is None or b is None:
            ctx.violation("C20:twin-crash", "case %s: library build result %s, header-only result %s"
                          % (cid, "ok" if a else "missing", "ok" if b else "missing"), {"line": ln})
            continue
        if cid.startswith("c12_"):
            a, b = a[0::4], b[0::4]   # drop time / thread stamps
        twin_cmp += 1
        if a != b:
            ctx.violation("C20:twin-behaviour-differs", "case %s: library build and header-only build disagree" % cid, {"line": ln})
        else:
            distinct.add("twin:" + cid)
    evaluations += twin_cmp
    # 4. the header must be usable on its own under every documented configuration macro set
    probe_results, probe_found = option_probes(ctx, repo)
    for key, what in probe_found:
        ctx.violation(key, what, {"probe": key})
    evaluations += len(probe_results)
    for tag, status, _ in probe_results:
        if status == "ok":
            distinct.add("probe:" + tag)
    cov = {
        "explanation": "Ran tools/gen_qtlogger.h.py on a scratch copy of src/ + tools/ of the current working tree and compared its output "
                       "byte-for-byte with the committed top-level qtlogger.h; then, for each of the %d source files under src/qtlogger, "
                       "appended a unique marker comment in the scratch copy, re-ran the generator and required the marker to appear "
                       "exactly once with nothing else changed (every source edit is reflected); finally ran %d deterministic cases "
                       "through drv_fmt built against libqtlogger.a and against the top-level header only and required identical results; and built + "
                       "ran a program that includes nothing but the top-level header under each documented configuration macro set."
                       % (len(files), twin_cmp),
        "evaluations": evaluations,
        "distinct_nontrivial": len(distinct),
        "rule": "distinct = source files whose marker probe round-tripped + twin cases with identical results",
        "samples": samples + [{"twin_cases": twin_cmp}],
        "source_files_probed": len(files),
        "unreflected_sources": unreflected,
        "header_bytes": len(committed),
        "header_equals_generator_output": gen0 == committed,
        "header_only_probe_by_configuration": {tag: status for tag, status, _ in probe_results},
    }
    return ctx.finish(cov, ["the generator script in tools/ defines 'amalgamation'", "header-only twin compiled with g++ -O1, no sanitizer"],
                      min_evals=10)
