"""C09 — daily rotation keeps days apart and rotated names are unique and dated."""
from .. import rotcheck

LEVEL = "exploration"
PROFILE = {"L_choices": [0, 0, 7, 64, 1000], "N_choices": [-1, 0, 2, 3, 5, 12], "option_choices": [2, 3, 6, 7],
           "p_day": 0.15, "p_restart": 0.10, "p_foreign": 0.0, "p_lag": 0.06, "p_midnight": 0.05, "autoobs_choices": [1, 2], "marathon_p": 0.012}


def run(ctx):
    return rotcheck.run_property(ctx, "C09", PROFILE, quick=400, thorough=15000,
                                 nontrivial=lambda a: a.stats["rotations"] >= 2 and a.stats["records"] >= 4,
                                 rule="daily rotation always on; day jumps of 1..40 days, size rotations, restarts, retention, delivery lag and midnight "
                                      "between clock reads; non-trivial = >= 2 rotations and >= 4 records")
