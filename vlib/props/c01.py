"""C01 — pipeline evaluation follows the sequential handler semantics."""
import json
import random

from .. import fmtdrv
from ..core import hexs, unhexs
from ..gen import TYPES, enc_msg, uni_text

LEVEL = "exploration"


# ------------------------------------------------------------------ reference evaluator

class Msg:
    def __init__(self, idx, typ, text, attrs, pre):
        self.idx = idx
        self.type = typ
        self.text = text
        self.attrs = dict(attrs)
        self.fmt = pre          # None = unformatted

    def formatted(self):
        return self.text if self.fmt is None else self.fmt


def vstr(v):
    if isinstance(v, bool):
        return "true" if v else "false"
    return str(v)


def attr_dump(a):
    return "".join("%s=%s;" % (k, vstr(a[k])) for k in sorted(a, key=lambda s: s.encode("utf-16-be", "surrogatepass")))


class Node:
    """kind in p a f m s h l n ; shared instances keep call counters"""
    def __init__(self, kind, k=0, scoped=False, via=0, kids=None):
        self.kind = kind
        self.k = k
        self.scoped = scoped
        self.via = via
        self.kids = kids or []
        self.calls = 0


def process(node, m, deliveries, stats):
    """returns the handler verdict"""
    kind = node.kind
    k = node.k
    if kind == "p":
        saved = (m.fmt, dict(m.attrs)) if node.scoped else None
        before = (m.fmt, dict(m.attrs))
        for h in node.kids:
            if h is None or h.kind == "n":
                continue
            if not process(h, m, deliveries, stats):
                stats["rejects"] += 1
                break
        if node.scoped:
            if (m.fmt, m.attrs) != before:
                stats["scoped_changed"] += 1
            m.fmt, m.attrs = saved[0], saved[1]
        elif (m.fmt, m.attrs) != before:
            stats["unscoped_changed"] += 1
        return True
    node.calls += 1
    if kind == "a":
        h = {"a%d" % (k % 4): "%d:%d" % (k, node.calls)}
        if k % 3 == 0:
            h["seen%d" % (k % 2)] = "%d%s" % (len(m.attrs), "F" if m.fmt is not None else "R")
        m.attrs.update(h)
        return True
    if kind == "f":
        c = k % 4
        if c == 0:
            return ((m.idx + k) % 3) != 0
        if c == 1:
            return ("a%d" % ((k // 4) % 4)) in m.attrs
        if c == 2:
            return ("F%d(" % ((k // 4) % 6)) not in m.formatted()
        return node.calls % 2 == 1
    if kind == "m":
        if k % 7 == 6:
            m.fmt = ""
        else:
            m.fmt = "F%d(" % (k % 6) + m.formatted() + ")"
        return True
    if kind == "s":
        deliveries.append((k, m.idx, m.fmt is not None, m.formatted(), m.text, attr_dump(m.attrs)))
        return True
    if kind == "h":
        c = k % 5
        if c == 0:
            m.attrs["g%d" % (k % 3)] = node.calls
            return True
        if c == 1:
            m.attrs.pop("a%d" % ((k // 5) % 4), None)
            return True
        if c == 2:
            m.fmt = "G%d[" % (k % 4) + m.formatted() + "]"
            return ((m.idx + k) % 4) != 1
        if c == 3:
            m.fmt = None
            return True
        return node.calls % 3 != 0
    if kind == "l":
        return m.type >= (k % 5)
    raise ValueError(kind)


# ------------------------------------------------------------------ generation

ATOMS = "afmshl"


def gen_atom(rnd):
    kind = rnd.choices(ATOMS, weights=[4, 4, 3, 5, 3, 1])[0]
    return Node(kind, rnd.randint(0, 59))


def gen_tree(rnd, depth, budget, shared, allow_null):
    """pipeline node"""
    via = rnd.choice([0, 1, 2])
    node = Node("p", scoped=rnd.random() < 0.5, via=via)
    n = rnd.randint(0, 7) if depth > 0 else rnd.randint(1, 8)
    for _ in range(n):
        if budget[0] <= 0:
            break
        budget[0] -= 1
        r = rnd.random()
        if r < 0.2 and depth < 5:
            node.kids.append(gen_tree(rnd, depth + 1, budget, shared, allow_null))
        elif r < 0.3 and shared:
            node.kids.append(("r", rnd.randrange(len(shared))))
        elif r < 0.36 and via == 1:
            node.kids.append(Node("n"))
        else:
            node.kids.append(gen_atom(rnd))
    return node


def enc_node(node):
    if isinstance(node, tuple):
        return "r %d" % node[1]
    if node.kind == "n":
        return "n"
    if node.kind == "p":
        return "p %d %d %d %s" % (1 if node.scoped else 0, node.via, len(node.kids), " ".join(enc_node(x) for x in node.kids))
    return "%s %d" % (node.kind, node.k)


def gen_fluent(rnd, depth, budget, shared, is_root):
    """returns (item list text, Node)"""
    node = Node("p", scoped=not is_root)   # fluent sub-pipelines are scoped; the root SimplePipeline is not
    items = []
    n = rnd.randint(1, 7)
    for _ in range(n):
        if budget[0] <= 0:
            break
        budget[0] -= 1
        r = rnd.random()
        if r < 0.22 and depth < 5:
            txt, child = gen_fluent(rnd, depth + 1, budget, shared, False)
            items.append("p " + txt)
            node.kids.append(child)
        elif r < 0.3 and shared:
            i = rnd.randrange(len(shared))
            items.append("r %d" % i)
            node.kids.append(("r", i))
        elif r < 0.34 and is_root:
            items.append("e")      # surplus end() at the root
        else:
            a = gen_atom(rnd)
            items.append("%s %d" % (a.kind, a.k))
            node.kids.append(a)
    return "%d %s" % (len(items), " ".join(items)), node


def resolve(node, shared_nodes):
    """replace ('r', i) by the shared instance"""
    if isinstance(node, tuple):
        return shared_nodes[node[1]]
    if node.kind == "p":
        node.kids = [resolve(x, shared_nodes) for x in node.kids]
    return node


def gen_deep(rnd):
    """a chain of nested pipelines far deeper than anything written by hand: every level sets an attribute or formats, descends, then
    delivers to a sink of its own - the in-order prediction has no depth limit"""
    depth = rnd.choice([17, 33, 63, 64, 65, 66, 100, 129, 257, 300])
    node = Node("p", scoped=rnd.random() < 0.5, via=0, kids=[gen_atom(rnd), Node("s", rnd.randint(0, 59))])
    for lvl in range(depth - 1):
        kids = [Node(rnd.choice("am"), rnd.randint(0, 59)), node, Node("s", rnd.randint(0, 59))]
        if rnd.random() < 0.1:
            kids.insert(1, Node("f", rnd.randint(0, 59)))
        node = Node("p", scoped=rnd.random() < 0.5, via=rnd.choice([0, 1, 2]), kids=kids)
    return node


def gen_case(rnd):
    budget = [40]
    shared = []
    if rnd.random() < 0.004:
        root = gen_deep(rnd)
        msgs = [({"type": rnd.randrange(5), "line": i, "file": b"f.cpp", "func": b"fn", "cat": b"c", "text": "m%d" % i, "attrs": []}, None)
                for i in range(rnd.randint(1, 3))]
        return {"shared_txt": "0", "body": "T " + enc_node(root), "shared": [], "root": root, "msgs": msgs, "deep": True}
    for _ in range(rnd.choice([0, 0, 1, 2, 3])):
        if rnd.random() < 0.25:
            shared.append(gen_tree(rnd, 3, [6], [], False))
        else:
            shared.append(gen_atom(rnd))
    shared_txt = "%d %s" % (len(shared), " ".join(enc_node(s) for s in shared)) if shared else "0"
    if rnd.random() < 0.5:
        root = gen_tree(rnd, 0, budget, shared, True)
        body = "T " + enc_node(root)
    else:
        txt, root = gen_fluent(rnd, 0, budget, shared, True)
        body = "F " + txt
    msgs = []
    for i in range(rnd.randint(1, 30) if rnd.random() < 0.3 else rnd.randint(1, 6)):
        attrs = []
        if rnd.random() < 0.3:
            attrs = [("a%d" % rnd.randrange(4), "pre"), ("user", uni_text(rnd, 6))][:rnd.randint(1, 2)]
        pre = None
        if rnd.random() < 0.2:
            pre = rnd.choice(["", "PRE", "F1(x)", uni_text(rnd, 6)])
        m = {"type": rnd.randrange(5), "line": i, "file": b"f.cpp", "func": b"fn", "cat": b"c",
             "text": rnd.choice(["m%d" % i, "", uni_text(rnd, 8)]), "attrs": attrs}
        msgs.append((m, pre))
    return {"shared_txt": shared_txt, "body": body, "shared": shared, "root": root, "msgs": msgs}


# ------------------------------------------------------------------ reconfiguration at run time (XL cases)

RANK = {"a": 0, "f": 1, "m": 2, "s": 3, "p": 4}
TYPED = ["tA", "tF", "tM", "tS"]
CLEARS = ["cA", "cF", "cM", "cS", "cc", "cP"]
NESTED = ["tP", "uA", "uF", "uM", "uS", "uF", "uS"]


def gen_typed_ops(rnd, n):
    out = []
    for _ in range(n):
        r = rnd.random()
        if r < 0.6:
            out.append((rnd.choice(TYPED), rnd.randint(0, 59)))
        elif r < 0.85:
            out.append((rnd.choice(NESTED), rnd.randint(0, 59)))      # an unscoped plain pipeline nested in Z, filled by plain append
        else:
            out.append((rnd.choice(CLEARS), 0))
    return out


def apply_typed(kids, op, k):
    """rank-ordered list model of SortedPipeline (as in C17): attribute handlers, filters, at most one formatter, sinks, nested
    pipelines; the one nested pipeline is a plain unscoped Pipeline whose own handlers are appended in call order"""
    nested = next((h for h in kids if h.kind == "p"), None)
    if op == "tP":
        if nested is None:
            kids.append(Node("p", scoped=False))
        return
    if op[0] == "u":
        if nested is not None:
            nested.kids.append(Node(op[1].lower(), k))
        return
    if op[0] == "t":
        cls = op[1].lower()
        if cls == "m":
            kids[:] = [h for h in kids if h.kind != "m"]
        pos = 0
        for i, h in enumerate(kids):
            if RANK[h.kind] <= RANK[cls]:
                pos = i + 1
        kids.insert(pos, Node(cls, k))
    elif op == "cc":
        kids[:] = []
    else:
        kids[:] = [h for h in kids if h.kind != op[1].lower()]


def gen_late_case(rnd):
    msgs = []
    for i in range(rnd.randint(2, 8)):
        attrs = [("user", uni_text(rnd, 5))] if rnd.random() < 0.2 else []
        pre = rnd.choice(["", "PRE"]) if rnd.random() < 0.15 else None
        m = {"type": rnd.randrange(5), "line": i, "file": b"f.cpp", "func": b"fn", "cat": b"c", "text": rnd.choice(["m%d" % i, "", uni_text(rnd, 6)]),
             "attrs": attrs}
        late = gen_typed_ops(rnd, rnd.choice([0, 0, 1, 1, 2, 3]))
        msgs.append((m, pre, late))
    init = gen_typed_ops(rnd, rnd.randint(0, 5))
    if rnd.random() < 0.4:
        init = [(op, k) for op, k in init if op in ("tF", "tS")]      # starts with filters and sinks only
    return {"late": True, "zscoped": rnd.random() < 0.7, "init": init, "msgs": msgs}


def late_line(i, c):
    ops = lambda lst: " ".join("%s %d" % (op, k) for op, k in lst)
    ms = " ".join("%s %s %d %s" % (enc_msg(m), "~" if pre is None else hexs(pre), len(late), ops(late)) for m, pre, late in c["msgs"])
    return "XL %s %d %d %s %d %s" % (i, 1 if c["zscoped"] else 0, len(c["init"]), ops(c["init"]), len(c["msgs"]), ms)


def late_reference(c):
    z = Node("p", scoped=c["zscoped"])
    for op, k in c["init"]:
        apply_typed(z.kids, op, k)
    root = Node("p", scoped=False, kids=[Node("a", 3), Node("s", 900), z, Node("s", 901)])
    deliveries, finals = [], []
    stats = {"rejects": 0, "scoped_changed": 0, "unscoped_changed": 0}
    for i, (m, pre, late) in enumerate(c["msgs"]):
        msg = Msg(i, m["type"], m["text"] or "", m["attrs"], pre)
        r = process(root, msg, deliveries, stats)
        finals.append((1 if r else 0, msg.fmt, attr_dump(msg.attrs)))
        for op, k in late:
            apply_typed(z.kids, op, k)
    return deliveries, finals, stats


def case_line(i, c):
    if c.get("late"):
        return late_line(i, c)
    ms = " ".join(enc_msg(m) + " " + ("~" if pre is None else hexs(pre)) for m, pre in c["msgs"])
    return "X %s %s %s %d %s" % (i, c["shared_txt"], c["body"], len(c["msgs"]), ms)


def reference(c):
    if c.get("late"):
        return late_reference(c)
    shared_nodes = []
    for s in c["shared"]:
        shared_nodes.append(resolve(s, shared_nodes))
    root = resolve(c["root"], shared_nodes)
    deliveries = []
    finals = []
    stats = {"rejects": 0, "scoped_changed": 0, "unscoped_changed": 0}
    for i, (m, pre) in enumerate(c["msgs"]):
        msg = Msg(i, m["type"], m["text"] or "", m["attrs"], pre)
        r = process(root, msg, deliveries, stats)
        finals.append((1 if r else 0, msg.fmt, attr_dump(msg.attrs)))
    return deliveries, finals, stats


def depth_of(node):
    if isinstance(node, tuple) or node.kind != "p":
        return 0
    return 1 + max([depth_of(k) for k in node.kids] or [0])


def parse_result(toks):
    deliveries = []
    finals = []
    for t in toks:
        f = t[1:].split(":")
        if t[0] == "E":
            finals.append((int(f[1]), None if f[2] == "~" else unhexs(f[2]), unhexs(f[3])))
        elif t[0] == "D":
            deliveries.append((int(f[0]), int(f[1]), f[2] == "1", unhexs(f[3]), unhexs(f[4]), unhexs(f[5])))
    return deliveries, finals


def run(ctx):
    only = None
    if ctx.replay:
        rep = json.load(open(ctx.replay))
        ctx.seed, ctx.tier, only = rep["seed"], rep["tier"], rep["case"]["index"]
        ctx.quick = ctx.tier == "quick"
    rnd = random.Random(ctx.seed * 67867967 + 1)
    cases = [gen_late_case(rnd) if rnd.random() < 0.25 else gen_case(rnd) for _ in range(ctx.pick(5000, 300000))]
    if only is not None:
        cases = [cases[only]]      # regenerated deterministically from (seed, tier, index)
    lines = [case_line(i, c) for i, c in enumerate(cases)]
    results, crashes = fmtdrv.run_cases(ctx, "san", lines, chunk=250)
    crashed = set()
    for cid, line, kind, err in crashes:
        crashed.add(cid)
        if kind != "skipped":
            ctx.violation("C01:crash:" + kind, err[-800:], {"line": lines[int(cid)], "index": int(cid)})
    compared = 0
    late_nontrivial = 0
    distinct = set()
    samples = []
    for i, c in enumerate(cases):
        if str(i) in crashed:
            continue
        exp_d, exp_f, stats = reference(c)
        got_d, got_f = parse_result(results[str(i)])
        compared += len(exp_d)
        if got_f != exp_f:
            j = next(k for k in range(len(exp_f)) if k >= len(got_f) or got_f[k] != exp_f[k])
            ctx.violation("C01:final-state", "program %s: message %d final (ret, formatted, attrs) expected %r got %r"
                          % (lines[i][:300] if c.get("late") else c["shared_txt"] + " " + c["body"], j, exp_f[j], got_f[j] if j < len(got_f) else None),
                          {"line": lines[i], "index": i})
        if got_d != exp_d:
            j = next((k for k in range(min(len(exp_d), len(got_d))) if got_d[k] != exp_d[k]), min(len(exp_d), len(got_d)))
            e = exp_d[j] if j < len(exp_d) else None
            g = got_d[j] if j < len(got_d) else None
            if e is None:
                key = "C01:delivery-extra"
            elif g is None:
                key = "C01:delivery-missing"
            elif e[:2] != g[:2]:
                key = "C01:delivery-order-or-set"
            elif e[2:4] != g[2:4]:
                key = "C01:delivery-formatted-text"
            elif e[5] != g[5]:
                key = "C01:delivery-attributes"
            else:
                key = "C01:delivery-raw"
            ctx.violation(key, "program %s: delivery #%d (sink,msg,isFormatted,formatted,raw,attrs) expected %r got %r"
                          % (lines[i][:300] if c.get("late") else c["shared_txt"] + " " + c["body"], j, e, g), {"line": lines[i], "index": i})
        if c.get("late"):
            if stats["scoped_changed"] and any(late for _, _, late in c["msgs"][:-1]):
                distinct.add(lines[i])
                late_nontrivial += 1
            continue
        d = depth_of(c["root"])
        if d >= 2 and stats["rejects"] and stats["scoped_changed"] and stats["unscoped_changed"]:
            distinct.add((c["shared_txt"], c["body"]))
        if len(samples) < 3 and d >= 2 and stats["rejects"] and i % 37 == 0:
            samples.append({"program": c["shared_txt"] + " | " + c["body"], "messages": len(c["msgs"]),
                            "deliveries": [list(x) for x in exp_d[:4]]})
    cov = {
        "evaluations": len(cases) - len(crashed),
        "distinct_nontrivial": len(distinct),
        "rule": "random handler trees (depth <= 5, <= 40 nodes; scoped/unscoped pipelines built by append, operator<< and initializer "
                "lists incl. null entries; attribute handlers, filters, formatters, sinks, generic handlers, LevelFilter, shared "
                "stateful instances) and SimplePipeline fluent programs (pipeline()/end(), surplus end()) x 1..30 messages with "
                "pre-set attributes / pre-formatted text; a quarter of the cases instead reconfigure a SimplePipeline through the typed "
                "SortedPipeline calls before the first message and again between messages (run-time reconfiguration); every sink delivery and the final message state compared with a reference "
                "evaluator; non-trivial = depth >= 2, a rejecting handler fired, and both a scoped and an unscoped pipeline changed "
                "message state; distinct by program text",
        "samples": samples or [{"program": cases[0]["body"]}],
        "deliveries_compared": compared,
        "reconfiguration_cases_nontrivial": late_nontrivial,
    }
    return ctx.finish(cov, ["formatters returning a null QString are not generated", "atom behaviour tables are shared by driver and reference"],
                      min_evals=1 if ctx.replay else 500)


