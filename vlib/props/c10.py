"""C10 — a crash or I/O failure during rotation does not destroy flushed records.

Fault enumeration on the real RotatingFileSink (drv_rot, plain flavour, libc interposition from the
driver executable).  For every scenario a dry run counts the K intercepted mutating file system
calls of the rotating operation; then one child per boundary is killed (_exit) before call k, one per
write() call writes half its buffer and dies, and one per {rename*, link*, unlink*, open(O_CREAT)}
call x errno fails that call and carries on.  A fresh process then re-opens the sink and writes more.
The parent reads the directory itself (own gzip reader) after each phase."""
import json
import os
import random
import re
import shutil
import subprocess

from .. import build, core, ref_gzip, rot
from ..core import hexs

LEVEL = "fault_enumeration"
DAY_MS = 86400000
ERRNOS = {"EACCES": 13, "ENOSPC": 28, "EIO": 5, "EEXIST": 17, "EXDEV": 18, "EINVAL": 22}
O_CREAT = 0o100
O_TMPFILE = 0o20200000
REC_RE = re.compile(rb"R(\d+):")


def gen_scenario(rnd, idx):
    trigger = rnd.choice(["size", "size", "daily", "startup"])
    opts = rnd.choice([0, 4]) | (2 if trigger == "daily" else rnd.choice([0, 2])) | (1 if trigger == "startup" else rnd.choice([0, 1]))
    if trigger == "size":
        L = rnd.choice([64, 300, 5000, 40000])
    else:
        L = rnd.choice([0, 0, 300, 100000])
    N = rnd.choice([0, -1, 2, 3, 5, 12])
    return {"idx": idx, "trigger": trigger, "opts": opts, "L": L, "N": N, "fname": rnd.choice(rot.FNAMES),
            "rot_before": rnd.choice([0, 1, 2, 3, 5, 10]), "after": rnd.randint(3, 10),
            "start_ms": (16200 + rnd.randrange(0, 1100)) * DAY_MS + 3600000 + rnd.randrange(0, 18 * 3600000), "stray": rnd.random() < 0.25,
            "obstacle": trigger != "daily" and rnd.random() < 0.3}


def rec_text(sc, rid):
    if sc["trigger"] == "size" or sc["L"] > 0:
        n = max(1, int(sc["L"] * 0.6)) if sc["L"] > 0 else 40
    else:
        n = 40
    head = "R%d:" % rid
    return head + "abcdefghij"[rid % 10] * max(0, n - len(head))


def trigger_ops(sc, openline):
    t = sc["trigger"]
    if t == "daily":
        return ["ADVANCE %d" % DAY_MS]
    if t == "startup":
        return ["CLOSE", openline]
    return []


def build_scripts(sc, d, arm=None, phase_b_offset=3 * DAY_MS):
    """-> (script A, script B, ids dict)"""
    path = os.path.join(d, sc["fname"])
    openline = "OPEN %s %d %d %d" % (path, sc["L"], sc["N"], sc["opts"])
    head = ["DIR " + d, "CLOCK %d" % sc["start_ms"], "GRAN 1000000", "AUTOOBS 1"]
    a = list(head) + [openline]
    rid = 0
    ids = {"prefix": [], "x": None, "y": [], "z": []}

    def w():
        nonlocal rid
        a.append("WRITE %d %s 0" % (rid, hexs(rec_text(sc, rid))))
        rid += 1
        return rid - 1
    ids["prefix"].append(w())
    for _ in range(sc["rot_before"]):
        a.extend(trigger_ops(sc, openline))
        a.append("ADVANCE 1500")
        ids["prefix"].append(w())
    if sc["stray"]:
        # leftover of an earlier interrupted compression: an empty .gz for an index that is not in use
        base, sfx = rot.split_name(sc["fname"])
        nm = "%s.%s.77%s.gz" % (base, rot.day_of(sc["start_ms"]), ("." + sfx) if sfx else "")
        a.append("FOREIGN %s -" % nm)
    if sc.get("obstacle"):
        # a directory occupies the name the next rotation will pick (the index scan only looks at files): the rename fails for real
        base, sfx = rot.split_name(sc["fname"])
        nxt = 78 if sc["stray"] else sc["rot_before"] + 1
        a.append("MKDIR %s.%s.%d%s" % (base, rot.day_of(sc["start_ms"]), nxt, ("." + sfx) if sfx else ""))
    a.append("ADVANCE 1500")
    a.append("OBS")
    tr = trigger_ops(sc, openline)
    # everything from here to DISARM is the armed region (the rotating operation)
    pre = [t for t in tr if t.startswith("ADVANCE")]
    a.extend(pre)
    if arm:
        a.append("ARM " + " ".join(str(x) for x in arm))
    a.extend([t for t in tr if not t.startswith("ADVANCE")])
    ids["x"] = w()
    a.append("DISARM")
    for _ in range(sc["after"]):
        a.append("ADVANCE 700")
        if rid % 3 == 0:
            a.extend([t for t in tr if t.startswith("ADVANCE")])
        ids["y"].append(w())
    a.append("CLOSE")
    b = ["DIR " + d, "CLOCK %d" % (sc["start_ms"] + phase_b_offset + sc["rot_before"] * DAY_MS * (sc["trigger"] == "daily")),
         "GRAN 1000000", "AUTOOBS 1", openline]
    rid = 100000
    for _ in range(sc["after"]):
        b.append("ADVANCE 700")
        b.append("WRITE %d %s 0" % (rid, hexs(rec_text(sc, rid))))
        ids["z"].append(rid)
        rid += 1
    b.append("CLOSE")
    return "\n".join(a) + "\n", "\n".join(b) + "\n", ids


def run_script(exe, env, script_text, workdir, name):
    sp = os.path.join(workdir, name + ".script")
    tp = os.path.join(workdir, name + ".trace")
    with open(sp, "w") as f:
        f.write(script_text)
    try:
        p = subprocess.run([exe, sp, tp], env=env, stdout=subprocess.PIPE, stderr=subprocess.PIPE, timeout=300)
        rc, err = p.returncode, p.stderr.decode("utf-8", "replace")
    except subprocess.TimeoutExpired:
        rc, err = "timeout", ""
    recs = []
    if os.path.exists(tp):
        for ln in open(tp):
            try:
                recs.append(json.loads(ln))
            except ValueError:
                break
    return rc, err, recs


def read_dir(d, sc):
    """-> {name: {"ids": [...], "intact": bool, "why": str, "rotated": bool, "gz": bool}} read straight from disk"""
    rx = rot.scheme_re(sc["fname"])
    out = {}
    for n in sorted(os.listdir(d)):
        p = os.path.join(d, n)
        if os.path.isdir(p):
            continue
        m = rx.match(n)
        if not (m or n == sc["fname"]):
            continue
        data = open(p, "rb").read()
        ent = {"ids": [], "intact": True, "why": "", "rotated": bool(m), "gz": n.endswith(".gz"), "size": len(data)}
        if ent["gz"]:
            try:
                data, _ = ref_gzip.parse(data)
            except ref_gzip.GzipError as e:
                ent["intact"] = False
                ent["why"] = str(e)
                data = b""
        # a record counts when its exact bytes incl. the newline are in the file - also when it directly follows the torn tail that
        # a crash in the middle of a write left behind (the property is about losing flushed records, not about that fragment)
        for mm in REC_RE.finditer(data):
            rid = int(mm.group(1))
            want = rec_text(sc, rid).encode() + b"\n"
            if data[mm.start():mm.start() + len(want)] == want:
                ent["ids"].append(rid)
        out[n] = ent
    return out


def recoverable(listing):
    s = set()
    for ent in listing.values():
        if ent["intact"]:
            s.update(ent["ids"])
    return s


def judge_state(sc, before, now, phase, extra_ids=(), unlink_failed=False):
    """before/now: read_dir results.  yields (key, what)"""
    have = recoverable(now)
    # before-files in age order (records are numbered in write order)
    files = sorted(((min(e["ids"]), n, e) for n, e in before.items() if e["ids"]), key=lambda t: t[0])
    n_rot_now = sum(1 for e in now.values() if e["rotated"])
    gone_prefix = True
    for _, name, ent in files:
        missing = [i for i in ent["ids"] if i not in have]
        if not missing:
            gone_prefix = False
            continue
        if len(missing) != len(ent["ids"]):
            yield ("C10:records-lost:partial-file:%s" % phase,
                   "%d of %d records that were on disk in %s before the rotating operation are no longer recoverable (e.g. R%d)"
                   % (len(missing), len(ent["ids"]), name, missing[0]))
            gone_prefix = False
            continue
        # the whole file's content is gone: only retention may do that - oldest first, never below N-1 rotated files
        if sc["N"] < 2:
            yield ("C10:records-lost:whole-file-without-retention:%s" % phase,
                   "all %d records of %s (on disk before the operation) are gone although N=%d never deletes" % (len(ent["ids"]), name, sc["N"]))
        elif not gone_prefix and not unlink_failed:
            # (when the injected fault is a failing unlink, retention cannot remove the oldest file and legitimately moves on to the next
            # one within its count - the undeletable older file survives)
            yield ("C10:records-lost:not-oldest-first:%s" % phase,
                   "all records of %s are gone while an older file's records survive" % name)
        elif n_rot_now < sc["N"] - 1:
            yield ("C10:records-lost:below-retention-limit:%s" % phase,
                   "all records of %s are gone and only %d rotated files remain (limit keeps %d)" % (name, n_rot_now, sc["N"] - 1))
    if extra_ids:
        z = list(extra_ids)
        missing = [i for i in z if i not in have]
        if missing:
            if z[-1] not in have:
                yield ("C10:restart-does-not-log:%s" % phase, "the last record written after the restart (R%d) is not in any file" % z[-1])
            elif sc["N"] < 2 or missing != z[:len(missing)]:
                yield ("C10:restart-records-lost:%s" % phase, "records written after the restart are missing: %s" % missing[:5])


def enumerate_faults(events):
    """events of the armed region in the dry run -> list of (k, mode, errno_name)"""
    out = []
    K = len(events)
    for k in range(1, K + 2):
        out.append((k, 1, None))                     # crash before call k (k = K+1: never fires = control)
    for k, e in enumerate(events, 1):
        if e["k"] == "write":
            out.append((k, 2, None))                 # half the buffer, then crash
        fail = e["k"] in ("rename", "link", "unlink") or (e["k"] == "open" and ((e["n"] & O_CREAT) or (e["n"] & O_TMPFILE) == O_TMPFILE))
        if fail:
            for name, no in ERRNOS.items():
                if name == "EINVAL" and e["k"] != "rename":
                    continue
                out.append((k, 3, name))
            # the same failure as a persisting condition: from this call on every rename/link/unlink/creating open fails
            for name in ("EACCES", "ENOSPC"):
                out.append((k, 4, name))
    return out


def run_scenario(args):
    tmp, sc, exe, env = args
    res = {"sc": sc, "violations": [], "children": 0, "K": 0, "calls": [], "fired": 0, "notfired": 0, "rotated": False, "modes": {}, "observations": []}
    base = os.path.join(tmp, "sc%d" % sc["idx"])
    os.makedirs(base, exist_ok=True)

    def fresh(tag):
        d = os.path.join(base, tag)
        shutil.rmtree(d, ignore_errors=True)
        os.makedirs(os.path.join(d, "logs"))
        return d
    # dry run
    d = fresh("dry")
    sa, sb, ids = build_scripts(sc, os.path.join(d, "logs"))
    rc, err, recs = run_script(exe, env, sa, d, "a")
    if rc != 0:
        res["error"] = "dry run failed rc=%s %s" % (rc, err[-300:])
        return res
    obs = next(i for i, r in enumerate(recs) if r["cmd"] == "OBS")
    dis = next(i for i, r in enumerate(recs) if r["cmd"] == "DISARM")
    events = []
    for r in recs[obs + 1:dis]:
        events.extend(r["events"])
    events.extend(recs[dis]["events"])
    res["K"] = len(events)
    res["calls"] = [e["k"] for e in events]
    # the armed WRITE performs more than its own write() when (and only when) it rotates - also when the rename is refused by Qt
    # before any system call (destination exists)
    res["rotated"] = any(r["cmd"] == "WRITE" and len(r["events"]) > 1 for r in recs[obs + 1:dis])
    res["rename_failed_for_real"] = any(e["k"] == "rename" and e["err"] for e in events)
    shutil.rmtree(d, ignore_errors=True)
    if not res["rotated"]:
        return res
    def one_run(k, mode, ename, then=0):
        d = fresh("k%d-%d-%s-%d" % (k, mode, ename, then))
        logs = os.path.join(d, "logs")
        arm = (k, mode, ERRNOS.get(ename, 0)) + ((then,) if then else ())
        sa, sb, ids = build_scripts(sc, logs, arm=arm)
        # "before" = what is on disk when the armed region begins: a first child executes the prefix only and Python reads the
        # directory itself; then the directory is wiped and the full script runs.
        pre = sa.split("OBS\n")[0] + "CLOSE\n"
        run_script(exe, env, pre, d, "pre")
        before = read_dir(logs, sc)
        shutil.rmtree(logs)
        os.makedirs(logs)
        rcA, errA, recsA = run_script(exe, env, sa, d, "a")
        res["children"] += 1
        label = {1: "crash-before", 2: "short-write-crash", 3: "fail", 4: "fail-persistently"}[mode] + ("+crash-later" if then else "")
        res["modes"][label] = res["modes"].get(label, 0) + 1
        crashed = rcA == 113
        if crashed or (mode in (3, 4) and any(r["cmd"] == "DISARM" and r.get("fired") for r in recsA)):
            res["fired"] += 1
        fault = [k, mode, ename, then]
        # failure AND a later crash is a double fault: outside the property's quantifier ("every single failure"), so what it shows
        # is recorded as an observation, never as a verdict
        sink = res["observations"] if then else res["violations"]
        if rcA not in (0, 113):
            sink.append(("C10:sink-crashed:%s" % label, "phase A exit status %s: %s" % (rcA, errA[-400:]), fault))
            return recsA, crashed
        ctxs = "k=%d/%d call=%s %s%s%s" % (k, len(events), events[k - 1]["k"] if k <= len(events) else "none", label,
                                            ("(" + ename + ")") if ename else "", (" then crash at +%d" % then) if then else "")
        now = read_dir(logs, sc)
        unlink_failed = mode in (3, 4) and k <= len(events) and (events[k - 1]["k"] == "unlink" or mode == 4)
        for key, what in judge_state(sc, before, now, "after-fault", unlink_failed=unlink_failed):
            sink.append((key, "%s :: %s :: dir=%s" % (ctxs, what, {n: (e["size"], e["intact"]) for n, e in now.items()}), fault))
        rcB, errB, recsB = run_script(exe, env, sb, d, "b")
        res["children"] += 1
        if rcB != 0:
            sink.append(("C10:restart-failed", "%s :: restarted sink exit status %s: %s" % (ctxs, rcB, errB[-400:]), fault))
            return recsA, crashed
        fin = read_dir(logs, sc)
        for key, what in judge_state(sc, before, fin, "after-restart", ids["z"], unlink_failed=unlink_failed):
            sink.append((key, "%s :: %s :: dir=%s" % (ctxs, what, {n: (e["size"], e["intact"]) for n, e in fin.items()}), fault))
        shutil.rmtree(d, ignore_errors=True)
        return recsA, crashed

    only = sc.get("only_fault")
    for (k, mode, ename) in enumerate_faults(events):
        if only and [k, mode, ename] != list(only[:3]):
            continue
        recsA, crashed = one_run(k, mode, ename, only[3] if only and len(only) > 3 else 0)
        if only:
            continue
        if mode == 3 and not crashed and k <= len(events) and (events[k - 1]["k"] == "rename" or sc.get("deep")):
            # the failed call sends Qt into a fallback (link+unlink, plain rename, copy+remove): crash at every later boundary
            later = 0
            seen_inj = False
            for r in recsA:
                if r["cmd"] == "DISARM":
                    break
                for e in r["events"]:
                    if seen_inj:
                        later += 1
                    elif e.get("inj"):
                        seen_inj = True
            for j in range(1, later + 1):
                one_run(k, mode, ename, j)
    shutil.rmtree(base, ignore_errors=True)
    return res


def strace_crosscheck(ctx, exe, env):
    """The shim must see every mutating file system call on the log directory: compare with strace on one compressed rotation."""
    sc = {"idx": 9999, "trigger": "size", "opts": 4, "L": 64, "N": 3, "fname": "app.log", "rot_before": 2, "after": 3,
          "start_ms": 1500000000000, "stray": False}
    d = os.path.join(ctx.tmp, "strace")
    logs = os.path.join(d, "logs")
    os.makedirs(logs)
    sa, _, _ = build_scripts(sc, logs)
    sp = os.path.join(d, "a.script")
    open(sp, "w").write(sa)
    out = os.path.join(d, "strace.out")
    try:
        p = subprocess.run(["strace", "-f", "-o", out, "-e", "trace=openat,open,creat,rename,renameat,renameat2,link,linkat,unlink,unlinkat",
                            exe, sp, os.path.join(d, "a.trace")], env=env, stdout=subprocess.PIPE, stderr=subprocess.PIPE, timeout=300)
    except (OSError, subprocess.TimeoutExpired) as e:
        return {"ran": False, "why": str(e)}
    if p.returncode != 0 or not os.path.exists(out):
        return {"ran": False, "why": "strace exit %s: %s" % (p.returncode, p.stderr.decode("utf-8", "replace")[-200:])}
    seen = {"open": 0, "rename": 0, "link": 0, "unlink": 0}
    for ln in open(out, errors="replace"):
        if logs not in ln:
            continue
        m = re.search(r"\b(openat|open|creat|renameat2|renameat|rename|linkat|link|unlinkat|unlink)\(", ln)
        if not m:
            continue
        call = m.group(1)
        if call in ("openat", "open", "creat"):
            if "O_WRONLY" in ln or "O_RDWR" in ln or call == "creat":
                seen["open"] += 1
        elif call.startswith("rename"):
            seen["rename"] += 1
        elif call.startswith("link"):
            seen["link"] += 1
        else:
            seen["unlink"] += 1
    shim = {"open": 0, "rename": 0, "link": 0, "unlink": 0}
    for ln in open(os.path.join(d, "a.trace")):
        for e in json.loads(ln)["events"]:
            if e["k"] in shim:
                shim[e["k"]] += 1
    return {"ran": True, "strace": seen, "shim": shim, "equal": seen == shim}


def run(ctx):
    exe = build.driver("plain", "drv_rot")
    env = core.base_env(ctx.tmp)
    rnd = random.Random(ctx.seed * 104729 + 10)
    if ctx.replay:
        rep = json.load(open(ctx.replay))["case"]
        scs = [dict(rep["scenario"], only_fault=rep.get("fault"))]
    else:
        scs = []
        want = ctx.pick(40, 1500)
        i = 0
        while len(scs) < want:
            sc = gen_scenario(rnd, i)
            i += 1
            if sc["N"] == 1:
                continue
            scs.append(sc)
    xc = strace_crosscheck(ctx, exe, env)
    if xc.get("ran") and not xc["equal"]:
        raise core.Inconclusive("syscall shim is incomplete: strace saw %s, shim saw %s" % (xc["strace"], xc["shim"]))
    from concurrent.futures import ProcessPoolExecutor
    with ProcessPoolExecutor(max_workers=os.cpu_count() or 4) as ex:
        results = list(ex.map(run_scenario, [(ctx.tmp, sc, exe, env) for sc in scs]))
    children = fired = 0
    distinct = set()
    samples = []
    callnames = {}
    modes = {}
    rotated = 0
    dbl = {}
    dbl_samples = []
    for r in results:
        if "error" in r:
            raise core.Inconclusive(r["error"])
        children += r["children"]
        fired += r["fired"]
        if r["rotated"]:
            rotated += 1
            distinct.add((r["sc"]["trigger"], r["sc"]["opts"], r["sc"]["L"], r["sc"]["N"], r["sc"]["fname"], r["sc"]["rot_before"],
                          tuple(r["calls"])))
        for c in r["calls"]:
            callnames[c] = callnames.get(c, 0) + 1
        for m, n in r["modes"].items():
            modes[m] = modes.get(m, 0) + n
        seen = set()
        for key, what, fault in r["violations"]:
            if key in seen:
                continue
            seen.add(key)
            ctx.violation(key, "scenario=%s :: %s" % ({k: v for k, v in r["sc"].items() if k != "start_ms"}, what),
                          {"scenario": r["sc"], "fault": fault})
        for key, what, fault in r["observations"]:
            dbl[key] = dbl.get(key, 0) + 1
            if len(dbl_samples) < 3:
                dbl_samples.append(what[:400])
        if len(samples) < 3 and r["rotated"]:
            samples.append({"scenario": r["sc"], "K": r["K"], "calls_of_the_rotating_operation": r["calls"], "child_runs": r["children"],
                            "exhaustive": True})
    cov = {
        "evaluations": children,
        "distinct_nontrivial": len(distinct),
        "rule": "per scenario (rotation trigger size/daily/startup x option subset x L x N x file-name shape x number of earlier rotations "
                "incl. index 9->10 x stray leftover .gz): crash before each of the K intercepted mutating calls of the rotating operation, "
                "half-write + crash at each write, and each of {EACCES, ENOSPC, EIO, EEXIST, EXDEV, EINVAL(rename)} on every "
                "rename/link/unlink/creating open; then a restart with further writes.  Enumeration is exhaustive per scenario; "
                "non-trivial = the armed operation really rotates; distinct by (trigger, options, L, N, name, earlier rotations, call sequence)",
        "samples": samples,
        "scenarios": len(scs), "scenarios_that_rotate": rotated, "faults_that_fired": fired, "runs_by_mode": modes,
        "intercepted_calls_in_armed_operations": callnames,
        "exhaustive": False,
        "exhaustive_note": "every syscall boundary of each scenario's rotating operation was hit; the scenario space itself is sampled",
        "strace_crosscheck": xc,
        "double_fault_observations_not_verdicts": {"what": "injected failure of a call followed by a crash at a later boundary inside Qt's "
                                                   "fallback path (outside the property's single-fault quantifier)", "by_key": dbl,
                                                   "samples": dbl_samples},
    }
    return ctx.finish(cov, ["process death, not power loss: data handed to the kernel counts as on disk",
                            "faults are injected by libc interposition from the driver executable; completeness cross-checked against strace"],
                      min_evals=1 if ctx.replay else 200)
