"""C14 — no input can crash, corrupt memory or hang formatting and filtering.

Coverage-guided fuzzing (clang libFuzzer, ASan + UBSan, -fno-sanitize-recover) of every formatter and filter with
arbitrary bytes for pattern / message / function / file / category / attribute values / rule strings.  A sanitizer
report, a libstdc++/Qt abort or a deadly signal is a violation; a time-out is re-run with a large budget to separate
slow from hung; running out of memory is recorded as an observation."""
import glob
import json
import os
import re
import shutil
import subprocess

from .. import build, core

LEVEL = "exploration"
# target -> (quick runs, thorough runs, max_len)
TARGETS = {
    "pattern": (1200000, 40000000, 70000),
    "patgram": (600000, 30000000, 4096),
    "func": (600000, 30000000, 70000),
    "pretty": (300000, 10000000, 8192),
    "json": (300000, 10000000, 70000),
    "sentry": (160000, 6000000, 70000),
    "catfilter": (160000, 6000000, 1400),
    "regexp": (200000, 10000000, 70000),
    "filters": (100000, 4000000, 2048),
}
FRAME = re.compile(r"#\d+ 0x[0-9a-f]+ in (.+?) (/\S+?):(\d+)")


def run_target(ctx, exe, target, job, runs, max_len):
    d = os.path.join(ctx.tmp, "%s-%d" % (target, job))
    corp = os.path.join(d, "corpus")
    art = os.path.join(d, "art")
    os.makedirs(corp)
    os.makedirs(art)
    seedc = os.path.join(core.VERIF, "corpus", target)
    env = core.base_env(d)
    env["FUZZ_TARGET"] = target
    env["ASAN_OPTIONS"] = "abort_on_error=0:detect_leaks=0:allocator_may_return_null=1:symbolize=1:handle_abort=1"
    env["UBSAN_OPTIONS"] = "print_stacktrace=1:halt_on_error=1:symbolize=1"
    env["ASAN_SYMBOLIZER_PATH"] = "/usr/bin/llvm-symbolizer-14"
    argv = [exe, "-runs=%d" % runs, "-max_len=%d" % max_len, "-seed=%d" % (ctx.seed * 1000 + job * 17 + 1), "-timeout=25", "-rss_limit_mb=6000",
            "-malloc_limit_mb=3000", "-detect_leaks=0", "-print_final_stats=1", "-artifact_prefix=" + art + "/", "-len_control=50", corp]
    if os.path.isdir(seedc):
        argv.append(seedc)
    try:
        p = subprocess.run(argv, env=env, stdout=subprocess.DEVNULL, stderr=subprocess.PIPE, timeout=6 * 3600)
        rc, err = p.returncode, p.stderr.decode("utf-8", "replace")
    except subprocess.TimeoutExpired as e:
        rc, err = "watchdog", (e.stderr or b"").decode("utf-8", "replace")
    res = {"target": target, "job": job, "rc": rc, "execs": 0, "cov": 0, "ft": 0, "corpus": 0, "finding": None, "samples": []}
    m = re.search(r"stat::number_of_executed_units:\s*(\d+)", err)
    if m:
        res["execs"] = int(m.group(1))
    for m in re.finditer(r"#(\d+)\s+(?:DONE|REDUCE|NEW|pulse|INITED|RELOAD)\s+cov: (\d+) ft: (\d+) corp: (\d+)", err):
        res["cov"], res["ft"], res["corpus"] = int(m.group(2)), int(m.group(3)), int(m.group(4))
        if not res["execs"]:
            res["execs"] = int(m.group(1))
    arts = sorted(glob.glob(art + "/*"))
    if rc != 0 or arts:
        kind = "unknown"
        if "ERROR: AddressSanitizer" in err:
            mm = re.search(r"AddressSanitizer: ([a-zA-Z-]+)", err)
            kind = "asan:" + (mm.group(1) if mm else "?")
        elif "runtime error:" in err:
            mm = re.search(r"runtime error: ([^\n]{0,60})", err)
            kind = "ubsan:" + re.sub(r"[0-9x-]+", "N", mm.group(1) if mm else "?")[:40].strip().replace(" ", "-")
        elif "ERROR: libFuzzer: timeout" in err:
            kind = "timeout"
        elif "out-of-memory" in err:
            kind = "oom"
        elif "deadly signal" in err:
            kind = "signal"
        elif rc == "watchdog":
            kind = "watchdog"
        where = "?"
        for fm in FRAME.finditer(err):
            if "/src/qtlogger/" in fm.group(2):
                where = re.sub(r"\(.*", "", fm.group(1))[-60:]
                break
        data = open(arts[0], "rb").read() if arts else b""
        res["finding"] = {"kind": kind, "where": where, "input_hex": data.hex()[:200000], "stderr": err[-3500:], "artifact": os.path.basename(arts[0]) if arts else ""}
    # keep a share of the final corpus for the memcheck replay
    keep = os.path.join(ctx.tmp, "keep", target)
    os.makedirs(keep, exist_ok=True)
    for f in sorted(glob.glob(corp + "/*"))[:ctx.pick(40, 1500)]:
        try:
            shutil.copy(f, os.path.join(keep, "%d-%s" % (job, os.path.basename(f))))
        except OSError:
            pass
    # a few corpus inputs as samples
    for f in sorted(glob.glob(corp + "/*"))[:2]:
        b = open(f, "rb").read()[:120]
        res["samples"].append({"target": target, "input": b.decode("latin-1").encode("unicode_escape").decode("ascii")})
    shutil.rmtree(d, ignore_errors=True)
    return res


def confirm_hang(ctx, exe, target, data):
    """re-run a timed-out input alone with a large budget: finishing = slow (observation), not finishing = hang"""
    d = os.path.join(ctx.tmp, "confirm-%s" % target)
    os.makedirs(d, exist_ok=True)
    f = os.path.join(d, "input")
    open(f, "wb").write(data)
    env = core.base_env(d)
    env["FUZZ_TARGET"] = target
    env["ASAN_OPTIONS"] = "detect_leaks=0:allocator_may_return_null=1"
    import time
    t0 = time.time()
    try:
        p = subprocess.run([exe, "-timeout=0", "-rss_limit_mb=0", f], env=env, stdout=subprocess.DEVNULL, stderr=subprocess.PIPE, timeout=180)
        return p.returncode == 0, time.time() - t0
    except subprocess.TimeoutExpired:
        return False, 180.0


def pretty_threads(ctx):
    """Deterministic side workload (san flavour of drv_fmt): one PrettyFormatter formats messages that really come from N distinct
    threads (1..300, crossing the 10 and 100 boundaries of the thread column) in hostile orders; a sanitizer abort or a NUL character
    in the output is a violation.  Returns (cases, violations)."""
    import random
    from .. import fmtdrv
    from ..core import hexb, unhexs
    rnd = random.Random(ctx.seed * 31 + 14)
    cases = []
    for n in [1, 2, 9, 10, 11, 12, 13, 99, 100, 101, 102, 103, 150, 300] + [rnd.randint(2, 220) for _ in range(ctx.pick(10, 200))]:
        for _ in range(2):
            cats = rnd.choice([[b"default"], [b"default", b"net"], [b"a.very.long.category.name.indeed", b"default"], [b"default"] * 3 + [b"x"]])
            order = []
            k = rnd.random()
            if k < 0.4:
                order = list(range(n)) + [0, n - 1, 0]                       # everyone once, then the first thread again
            elif k < 0.7:
                order = [rnd.randrange(n) for _ in range(min(3 * n, 400))]
            else:
                order = list(range(n - 1, -1, -1)) + list(range(n))
            cases.append((rnd.randrange(2), rnd.choice([-1, 0, 3, 10, 15, 40]), n, cats, order[:600]))
    lines = ["TT %d %d %d %d %d %s %d %s" % (i, c[0], c[1], c[2], len(c[3]), " ".join(hexb(x) for x in c[3]), len(c[4]),
                                              " ".join(str(t) for t in c[4])) for i, c in enumerate(cases)]
    results, crashes = fmtdrv.run_cases(ctx, "san", lines, chunk=8)
    found = []
    crashed = set()
    for cid, line, kind, err in crashes:
        crashed.add(cid)
        if kind != "skipped":
            c = cases[int(cid)]
            found.append(("C14:pretty-threads:%s" % kind, "threads=%d colour=%d width=%d :: %s" % (c[2], c[0], c[1], err[-1500:]),
                          {"target": "pretty-threads", "line": lines[int(cid)], "input_hex": ""}))
    for i, c in enumerate(cases):
        if str(i) in crashed:
            continue
        outs = results[str(i)]
        for t, h in zip(c[4], outs):
            text = unhexs(h)
            if "\x00" in text or ("text-of-t%d" % (t % c[2])) not in text:
                found.append(("C14:pretty-threads:corrupt-output", "threads=%d: line for thread %d is %r" % (c[2], t, text[:120]),
                              {"target": "pretty-threads", "line": lines[i], "input_hex": ""}))
                break
    return len(cases), found


def wildcard_blowup(ctx):
    """Deterministic side workload (san flavour of drv_fmt): rule lists with many wildcards separated by text that repeats in the probed
    category and a tail that never matches - the inputs on which a backtracking matcher needs C(n, k) steps.  All within the 256-byte
    bounds of the property.  The reference finishes each in microseconds; a case that has not finished after 90 s of wall clock (four
    to five orders of magnitude more) does not terminate for practical purposes.  Returns (cases, violations)."""
    import random
    from .. import fmtdrv
    from . import c15
    rnd = random.Random(ctx.seed * 37 + 14)
    cases = []
    for k in [2, 3, 5, 8, 12, 20, 40, 64]:
        for unit, n in (("a", 250), ("ab", 120), (".x", 100), ("a", 60)):
            sep = "*" + unit
            tail = rnd.choice(["b", ".end", "Z", "=", "a" + "b"])
            rule = (sep * k + "*" + tail)[:240]
            text = rule + "=false\n" + ("*" * min(k, 20)) + "zz=false;" + rule + ".debug=true"
            probes = [(unit * n, rnd.randrange(5)), (unit * n + tail[:-1], rnd.randrange(5)), (unit * (n // 2) + "x" + unit * (n // 2), rnd.randrange(5)),
                      (unit * n + tail, rnd.randrange(5))]
            probes = [(c[:255], t) for c, t in probes if all(0x20 < ord(ch) < 0x7f for ch in c)]
            cases.append((text, False, probes))
    lines = [c15.case_line(i, c) for i, c in enumerate(cases)]
    results, crashes = fmtdrv.run_cases(ctx, "san", lines, chunk=1, timeout=90)
    found = []
    crashed = set()
    for cid, line, kind, err in crashes:
        crashed.add(cid)
        if kind != "skipped":
            found.append(("C14:catfilter-wildcards:%s" % kind, "rules %r :: %s" % (cases[int(cid)][0][:120], err[-800:]),
                          {"target": "wildcard-blowup", "line": lines[int(cid)], "input_hex": ""}))
    for i, c in enumerate(cases):
        if str(i) in crashed:
            continue
        rules = c15.parse_rules(c[0])
        exp = [1 if c15.decide(rules, cat, c15.TYPE_SUFFIX[t] if t < 4 else None) else 0 for cat, t in c[2]]
        got = [int(x) for x in results[str(i)][:len(exp)]]
        # the verdicts themselves are C15's subject; here they only show that the run really evaluated the rules
        if len(got) != len(exp):
            found.append(("C14:catfilter-wildcards:truncated-output", "rules %r: %d of %d verdicts" % (c[0][:120], len(got), len(exp)),
                          {"target": "wildcard-blowup", "line": lines[i], "input_hex": ""}))
    return len(cases), found


def memcheck_replay(ctx):
    """Replay the kept corpus inputs through a gcc build of the same targets under valgrind memcheck (different mechanism than ASan:
    no red zones, no quarantine limit).  Invalid reads/writes/frees with a qtlogger frame are violations; uninitialised-value reports
    are outside the statement and only counted.  -> (inputs replayed, violations, observations)"""
    exe = build.ensure_fuzz_replay()
    from concurrent.futures import ThreadPoolExecutor

    def one(target):
        files = sorted(glob.glob(os.path.join(ctx.tmp, "keep", target, "*")))
        if not files:
            return target, 0, "", 0
        env = core.base_env(ctx.tmp)
        env["FUZZ_TARGET"] = target
        out = ""
        n = 0
        for i in range(0, len(files), 300):
            try:
                p = subprocess.run(["valgrind", "--quiet", "--error-exitcode=9", "--num-callers=20", exe] + files[i:i + 300], env=env,
                                   stdout=subprocess.PIPE, stderr=subprocess.PIPE, timeout=3 * 3600)
                out += p.stderr.decode("utf-8", "replace")
                n += len(files[i:i + 300])
            except subprocess.TimeoutExpired:
                out += "\nTIMEOUT\n"
        return target, n, out, 0
    with ThreadPoolExecutor(max_workers=len(TARGETS)) as ex:
        res = list(ex.map(one, TARGETS))
    total = 0
    found = []
    uninit = 0
    for target, n, out, _ in res:
        total += n
        for block in re.split(r"\n==\d+== \n", out):
            if re.search(r"Invalid (read|write|free)|Mismatched free|Jump to the invalid", block):
                if "/src/qtlogger/" in block or "qtlogger/" in block:
                    kind = re.search(r"(Invalid \w+|Mismatched free|Jump)", block).group(1).replace(" ", "-")
                    found.append(("C14:memcheck:%s:%s" % (target, kind), block[-1800:], {"target": target, "input_hex": "", "memcheck": True}))
            elif "uninitialised" in block:
                uninit += 1
    return total, found, uninit


def run(ctx):
    exe = build.ensure_fuzz()
    if ctx.replay:
        rep = json.load(open(ctx.replay))["case"]
        if rep.get("target") in ("pretty-threads", "wildcard-blowup"):
            from .. import fmtdrv
            blow = rep["target"] == "wildcard-blowup"
            results, crashes = fmtdrv.run_cases(ctx, "san", [rep["line"]], chunk=1, timeout=90 if blow else 900)
            for cid, line, kind, err in crashes:
                ctx.violation("C14:%s:%s" % ("catfilter-wildcards" if blow else "pretty-threads", kind), err[-1500:], rep)
            return ctx.finish({"evaluations": 1, "distinct_nontrivial": 0, "rule": "replay", "samples": [rep["target"]]}, [], min_evals=1,
                              min_distinct=0)
        d = os.path.join(ctx.tmp, "replay")
        os.makedirs(d)
        f = os.path.join(d, "input")
        open(f, "wb").write(bytes.fromhex(rep["input_hex"]))
        env = core.base_env(d)
        env["FUZZ_TARGET"] = rep["target"]
        env["ASAN_OPTIONS"] = "detect_leaks=0:symbolize=1"
        env["ASAN_SYMBOLIZER_PATH"] = "/usr/bin/llvm-symbolizer-14"
        p = subprocess.run([exe, "-timeout=120", f], env=env, stdout=subprocess.DEVNULL, stderr=subprocess.PIPE)
        err = p.stderr.decode("utf-8", "replace")
        if p.returncode != 0:
            ctx.violation(rep.get("key", "C14:replay"), err[-2000:], rep)
        return ctx.finish({"evaluations": 1, "distinct_nontrivial": 0, "rule": "replay", "samples": [rep["target"]]}, [], min_evals=1, min_distinct=0)
    jobs = []
    for target, (q, t, max_len) in TARGETS.items():
        for job in range(2):
            jobs.append((target, job, ctx.pick(q, t) // 2, max_len))
    from concurrent.futures import ThreadPoolExecutor
    with ThreadPoolExecutor(max_workers=os.cpu_count() or 4) as ex:
        results = list(ex.map(lambda j: run_target(ctx, exe, *j), jobs))
    per = {}
    samples = []
    observations = []
    total_execs = total_corpus = 0
    for r in results:
        t = per.setdefault(r["target"], {"execs": 0, "cov": 0, "ft": 0, "corpus": 0})
        t["execs"] += r["execs"]
        t["cov"] = max(t["cov"], r["cov"])
        t["ft"] = max(t["ft"], r["ft"])
        t["corpus"] += r["corpus"]
        total_execs += r["execs"]
        total_corpus += r["corpus"]
        if len(samples) < 6 and r["samples"]:
            samples.append(r["samples"][0])
        f = r["finding"]
        if not f:
            continue
        case = {"target": r["target"], "input_hex": f["input_hex"], "kind": f["kind"]}
        if f["kind"] == "timeout":
            finished, secs = confirm_hang(ctx, exe, r["target"], bytes.fromhex(f["input_hex"]))
            if finished:
                observations.append({"target": r["target"], "slow_input_seconds": round(secs, 1), "bytes": len(f["input_hex"]) // 2})
                continue
            key = "C14:hang:%s:%s" % (r["target"], f["where"])
        elif f["kind"] == "oom":
            observations.append({"target": r["target"], "out_of_memory": f["stderr"][-300:]})
            continue
        elif f["kind"] == "watchdog":
            raise core.Inconclusive("fuzzer for %s exceeded the wall-clock watchdog" % r["target"])
        else:
            key = "C14:%s:%s:%s" % (r["target"], f["kind"], f["where"])
        case["key"] = key
        ctx.violation(key, "input (%d bytes) %r... :: %s" % (len(f["input_hex"]) // 2, bytes.fromhex(f["input_hex"][:160]), f["stderr"][-1800:]), case)
        if r["execs"] == 0:
            r["execs"] = 1
    n_mc, found_mc, uninit = memcheck_replay(ctx)
    seen_mc = set()
    for key, what, case in found_mc:
        if key not in seen_mc:
            seen_mc.add(key)
            ctx.violation(key, what, case)
    n_pt, found_pt = pretty_threads(ctx)
    for key, what, case in found_pt:
        ctx.violation(key, what, case)
    n_wb, found_wb = wildcard_blowup(ctx)
    for key, what, case in found_wb:
        ctx.violation(key, what, case)
    if any(v["execs"] == 0 for v in per.values()) and not ctx.violations:
        raise core.Inconclusive("a fuzz target executed nothing: %s" % per)
    cov = {
        "evaluations": total_execs,
        "distinct_nontrivial": total_corpus,
        "rule": "libFuzzer executions per target (pattern, patgram, func, pretty, json, sentry, catfilter, regexp, filters), two independent jobs each, "
                "seeded from the committed corpus (pattern/rule/signature literals of tests and docs + grammar-generated signatures); "
                "distinct_nontrivial = number of inputs libFuzzer kept because they added coverage (final corpus sizes summed)",
        "samples": samples,
        "per_target": per,
        "observations_slow_or_oom": observations,
        "pretty_formatter_many_threads_cases": n_pt,
        "category_rules_many_wildcards_cases": n_wb,
        "memcheck_replayed_inputs": n_mc, "memcheck_uninitialised_value_reports_not_judged": uninit,
        "scope": "patterns asking for a field of >= 100000 characters (six consecutive digits) are rejected by the target: resource exhaustion "
                 "as requested, not memory unsafety",
    }
    return ctx.finish(cov, ["clang 14 libFuzzer + ASan + UBSan, Qt's inline assertions enabled (no QT_NO_DEBUG); Qt itself is uninstrumented", "only formatters/*.cpp and filters/*.cpp are linked "
                            "(clang cannot compile logger.cpp)"], min_evals=1000, min_distinct=20)
