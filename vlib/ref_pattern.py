"""Independent reference for the documented PatternFormatter mini-language (docs/api/formatters.md).

Works on Python strings but measures and cuts in UTF-16 code units (model 'u') or in code points
(model 'c') where the documentation says 'characters' and is silent about which.  evaluate() returns
either ('core', set_of_acceptable_outputs, facts) or ('corner', reason): corner inputs use a construct
outside what the documentation defines and get no functional verdict.
"""
import datetime
import itertools

from .gen import u16, from_u16, u16len, TYPES

BUILTIN_NAMES = {"message", "type", "category", "file", "shortfile", "line", "function", "func", "time",
                 "threadid", "qthreadptr"}
ALIGN = "<^>"


class Corner(Exception):
    pass


def is_ascii_digits(s):
    return s != "" and all("0" <= c <= "9" for c in s)


def parse_spec(s):
    """[fill][align]width[!] | width!   -> dict or None"""
    if s == "":
        return None
    trunc = False
    if s.endswith("!"):
        trunc = True
        s = s[:-1]
        if s == "":
            return None
    fill = None
    align = None
    su = u16(s)
    if len(su) >= 2 and 0x20 <= su[1] < 0x7f and chr(su[1]) in ALIGN:
        fill = from_u16(su[:1])
        align = chr(su[1])
        rest = from_u16(su[2:])
    elif su and su[0] < 0x7f and chr(su[0]) in ALIGN:
        align = chr(su[0])
        rest = from_u16(su[1:])
    else:
        if not trunc:
            return None
        rest = s
    if not is_ascii_digits(rest):
        if rest.strip() != rest or rest[:1] in "+-":
            raise Corner("width with sign/whitespace")
        return None
    w = int(rest)
    if w <= 0:
        return None
    return {"fill": fill, "align": align, "width": w, "trunc": trunc}


def tokenize(p, pct="own", unterm="own"):
    """-> list of ('lit', text) | ('ph', body).  Where one run of literal text ends matters to "remove M characters after": whether a
    count that exceeds the literal continues into the next one is not documented, and neither is whether a character that stems from a
    '%' construct ('%%', the '%' of an unterminated '%{') ends the run.  evaluate() is therefore run over every reading:
    pct    'own'  - the '%' of '%%' is a piece of its own        'join' - it is part of the surrounding literal text
    unterm 'own'  - the '%' of an unterminated '%{' is a piece of its own
           'head' - it starts a new piece that continues with the text after it
           'join' - it is part of the surrounding literal text"""
    toks = []
    lit = []
    i = 0
    n = len(p)

    def flush():
        if lit:
            toks.append(("lit", "".join(lit)))
            del lit[:]
    while i < n:
        c = p[i]
        if c == "%" and i + 1 < n:
            d = p[i + 1]
            if d == "{":
                j = p.find("}", i + 2)
                if j == -1:
                    if unterm == "own":
                        flush()
                        toks.append(("lit", "%"))
                    elif unterm == "head":
                        flush()
                        lit.append("%")
                    else:
                        lit.append("%")
                    i += 1
                    continue
                flush()
                toks.append(("ph", p[i + 2:j]))
                i = j + 1
                continue
            if d == "%":
                if pct == "own":
                    flush()
                    toks.append(("lit", "%"))
                else:
                    lit.append("%")
                i += 2
                continue
        lit.append(c)
        i += 1
    flush()
    return toks


def cut(s, n, model, keep_last=False):
    if model == "u":
        u = u16(s)
        return from_u16(u[-n:] if keep_last else u[:n])
    return s[-n:] if keep_last else s[:n]


def length(s, model):
    return u16len(s) if model == "u" else len(s)


def pad(value, spec, model):
    if spec is None:
        return value
    w = spec["width"]
    fill = spec["fill"] if spec["fill"] is not None else " "
    align = spec["align"]
    if spec["trunc"] and spec["fill"] is None:
        # truncation only: never pads
        if length(value, model) <= w:
            return value
        return cut(value, w, model, keep_last=(align == ">"))
    if align is None:
        return value
    v = value
    if spec["trunc"] and length(v, model) > w:
        v = cut(v, w, model, keep_last=(align == ">"))
    ln = length(v, model)
    if ln >= w:
        return v
    padn = w - ln
    if align == "<":
        return v + fill * padn
    if align == ">":
        return fill * padn + v
    left = padn // 2
    return fill * left + v + fill * (padn - left)


TIME_SPECS = ["yyyy", "zzz", "MM", "dd", "hh", "mm", "ss"]
TIME_SEPARATORS = "-:. /T_,"


_TZ_STATE = [None]


def local_dt(ms, tz):
    """broken-down local time of an epoch stamp in the POSIX time zone `tz` (rules incl. DST evaluated by the C library through
    Python's time module, independently of Qt)"""
    import os
    import time
    if tz in (None, "UTC"):
        return datetime.datetime.fromtimestamp(ms // 1000, datetime.timezone.utc)
    if _TZ_STATE[0] != tz:
        os.environ["TZ"] = tz
        time.tzset()
        _TZ_STATE[0] = tz
    t = time.localtime(ms // 1000)
    return datetime.datetime(t.tm_year, t.tm_mon, t.tm_mday, t.tm_hour, t.tm_min, t.tm_sec)


def format_time(fmt, ms, tz=None):
    dt = local_dt(ms, tz)
    vals = {"yyyy": "%04d" % dt.year, "MM": "%02d" % dt.month, "dd": "%02d" % dt.day, "hh": "%02d" % dt.hour,
            "mm": "%02d" % dt.minute, "ss": "%02d" % dt.second, "zzz": "%03d" % (ms % 1000)}
    out = []
    i = 0
    while i < len(fmt):
        for sp in TIME_SPECS:
            if fmt.startswith(sp, i):
                # a longer run of the same letter is outside the documented specifiers
                j = i + len(sp)
                if j < len(fmt) and fmt[j] == sp[0]:
                    raise Corner("undocumented time specifier run")
                out.append(vals[sp])
                i = j
                break
        else:
            if fmt[i] not in TIME_SEPARATORS:
                raise Corner("undocumented time format character %r" % fmt[i])
            out.append(fmt[i])
            i += 1
    return "".join(out)


def variant_str(v):
    if v is None:
        return ""      # an attribute that is set, to an invalid QVariant: present, and its text is empty
    if isinstance(v, bool):
        return "true" if v else "false"
    if isinstance(v, int):
        return str(v)
    if isinstance(v, str):
        return v
    raise Corner("attribute value kind not modelled")


def evaluate(pattern, msg, opts):
    """msg: dict(type(int), line, file/func/cat (bytes|None), text, attrs(dict), time_ms, thread_id, steady_ms, func_clean)
    opts: dict(model='u'|'c', missing='echo'|'empty', time_ms=bool, short_n='none'|'all')
    returns the output string; raises Corner for inputs outside the documented core."""
    toks = opts["toks"] if "toks" in opts else tokenize(pattern)
    out = ""
    cond = None
    pending_after = 0
    prev_kind = None      # kind of the previous emitted token: 'lit' | 'val' | None
    last_lit_units = 0    # trailing units of out that stem from directly preceding literal text
    real_tokens = 0
    mtype = TYPES[msg["type"]]

    def cstr(b):
        return "" if b is None else b.decode("latin-1")

    for kind, body in toks:
        if kind == "lit":
            real_tokens += 1
            if cond is not None and cond != mtype:
                if pending_after:
                    raise Corner("remove-after target literal is conditional")
                continue
            text = body
            if pending_after and u16len(text) < pending_after:
                # "remove M chars after" with fewer than M literal characters following: the documentation is silent on whether the
                # surplus is dropped or carried on; removing less than the whole literal is not among the readings
                if opts.get("after_over", "stop") == "stop":
                    pending_after = 0
                else:
                    pending_after -= u16len(text)
                text = ""
                last_lit_units = (last_lit_units if prev_kind == "lit" else 0)
                prev_kind = "lit"
                continue
            if pending_after:
                tu = u16(text)[pending_after:]
                if tu and 0xdc00 <= tu[0] <= 0xdfff:
                    raise Corner("remove-after splits a surrogate pair")
                text = from_u16(tu)
                pending_after = 0
            out += text
            last_lit_units = (last_lit_units if prev_kind == "lit" else 0) + u16len(text)
            prev_kind = "lit"
            continue
        # placeholder
        spec = None
        name = body
        colon = body.rfind(":")
        if colon != -1 and colon < len(body) - 1:
            sp = parse_spec(body[colon + 1:])
            if sp is not None:
                spec = sp
                name = body[:colon]
                if sp["width"] > 200000:
                    raise Corner("width above generator bound")
        if name.startswith("if-"):
            if spec is not None:
                raise Corner("spec on conditional")
            t = name[3:]
            if t not in TYPES:
                raise Corner("unknown conditional type")
            if cond is not None:
                raise Corner("nested conditional")
            if pending_after:
                raise Corner("remove-after followed by conditional")
            cond = t
            continue
        if name == "endif":
            if spec is not None:
                raise Corner("spec on endif")
            if pending_after:
                raise Corner("remove-after followed by endif")
            cond = None
            continue
        real_tokens += 1
        if cond is not None and cond != mtype:
            if pending_after:
                raise Corner("remove-after followed by skipped placeholder")
            continue
        if pending_after:
            raise Corner("remove-after not followed by a literal")
        value = None
        if name == "message":
            value = msg["text"] or ""
        elif name == "type":
            value = mtype
        elif name == "category":
            value = cstr(msg["cat"])
        elif name == "file":
            value = cstr(msg["file"])
        elif name == "line":
            value = str(msg["line"])
        elif name == "function":
            value = cstr(msg["func"])
        elif name == "func":
            if msg.get("func_clean") is None:
                raise Corner("func on a signature outside the plain grammar")
            value = msg["func_clean"]
        elif name == "threadid":
            value = str(msg["thread_id"])
        elif name == "qthreadptr":
            value = "0x%x" % msg["thread_id"]
        elif name == "shortfile" or name.startswith("shortfile "):
            f = cstr(msg["file"])
            base = name[10:].strip() if name.startswith("shortfile ") else ""
            if "\\" in f or "\\" in base:
                raise Corner("backslash path with shortfile")
            if base == "":
                value = f.rsplit("/", 1)[-1]
            else:
                if base.endswith("/") or not base.startswith("/"):
                    raise Corner("shortfile base not a clean absolute directory")
                if f.startswith(base + "/") and not f.startswith(base + "//"):
                    value = f[len(base) + 1:]
                elif f.startswith(base):
                    raise Corner("shortfile base is a partial path component or the file itself")
                else:
                    value = f
        elif name == "time" or name.startswith("time "):
            fmt = name[5:].strip() if name.startswith("time ") else ""
            ms = msg["time_ms"]
            if fmt == "":
                dt = local_dt(ms, msg.get("tz"))
                value = dt.strftime("%Y-%m-%dT%H:%M:%S")
                if opts["time_ms"]:
                    value += ".%03d" % (ms % 1000)
            elif fmt == "boot":
                value = "%d.%03d" % (msg["steady_ms"] // 1000, msg["steady_ms"] % 1000)
            elif fmt == "process":
                raise Corner("process time is checked by shape only")
            else:
                value = format_time(fmt, ms, msg.get("tz"))
        else:
            q = name.find("?")
            if q == -1:
                if name in msg["attrs"]:
                    value = variant_str(msg["attrs"][name])
                elif opts["missing"] == "echo":
                    value = "%{" + name + "}"
                else:
                    value = ""
                    spec = None
            else:
                aname = name[:q]
                suffix = name[q + 1:]
                nb = na = 0
                if "," in suffix:
                    a, b = suffix.split(",", 1)
                    if (a != "" and not is_ascii_digits(a)) or (b != "" and not is_ascii_digits(b)):
                        raise Corner("malformed optional counts")
                    nb = int(a) if a else 0
                    na = int(b) if b else 0
                else:
                    if suffix != "" and not is_ascii_digits(suffix):
                        raise Corner("malformed optional counts")
                    nb = int(suffix) if suffix else 0
                if aname in msg["attrs"]:
                    value = variant_str(msg["attrs"][aname])
                else:
                    if spec is not None:
                        raise Corner("format spec on a missing optional attribute")
                    if nb:
                        have = u16len(out)
                        if have < nb:
                            if opts["short_n"] == "all":
                                if prev_kind == "val" or last_lit_units < have:
                                    raise Corner("remove-before would eat into a value")
                                out = ""
                                last_lit_units = 0
                        else:
                            if nb > last_lit_units or prev_kind != "lit":
                                raise Corner("remove-before would eat into a value")
                            u = u16(out)[:have - nb]
                            if u and 0xd800 <= u[-1] <= 0xdbff:
                                raise Corner("remove-before splits a surrogate pair")
                            out = from_u16(u)
                            last_lit_units -= nb
                    pending_after = na
                    continue
        out += pad(value, spec, opts["model"])
        prev_kind = "val"
        last_lit_units = 0
    if pending_after:
        raise Corner("remove-after at end of pattern")
    if real_tokens == 0:
        raise Corner("pattern without tokens")
    return out


OPTION_SPACE = [dict(model=m, missing=mi, time_ms=t, short_n=sn, after_over=ao)
                for m in "uc" for mi in ("echo", "empty") for t in (False, True) for sn in ("none", "all") for ao in ("stop", "carry")]


def accept_set(pattern, msg):
    """-> (set of acceptable outputs, None) or (None, corner_reason)"""
    outs = set()
    tokenizations = []
    for pct in ("own", "join"):
        for unterm in ("own", "head", "join"):
            t = tokenize(pattern, pct, unterm)
            if t not in tokenizations:
                tokenizations.append(t)
    try:
        for t in tokenizations:
            for o in OPTION_SPACE:
                outs.add(evaluate(pattern, msg, dict(o, toks=t)))
    except Corner as c:
        return None, str(c)
    return outs, None
