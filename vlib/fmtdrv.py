"""Run case lines through drv_fmt (any flavour), in parallel chunks, with crash localisation."""
import os
import subprocess

from . import build, core


def _run_chunk(exe, path, env, timeout):
    try:
        p = subprocess.run([exe, path], env=env, stdout=subprocess.PIPE, stderr=subprocess.PIPE,
                           timeout=timeout)
        return p.returncode, p.stdout.decode("ascii", "replace"), p.stderr.decode("utf-8", "replace")
    except subprocess.TimeoutExpired as e:
        return "timeout", (e.stdout or b"").decode("ascii", "replace"), (e.stderr or b"").decode("utf-8", "replace")


LAGS = [0, 2500, 0, 61000, 0, 90000000, 3456000000, 999]


def tz_of_case(index, chunk, tzs):
    """the time zone the chunk containing case #index ran in (mirrors run_cases)"""
    return tzs[((index // chunk) // 2) % len(tzs)] if tzs else "UTC"


TZS = ["UTC", "JST-9", "UTC", "<-0330>3:30", "UTC", "CET-1CEST,M3.5.0,M10.5.0/3", "UTC", "EST5EDT,M3.2.0,M11.1.0"]


UPTIMES = [0, 0, 31, 0, 400, 0, 26, 0]     # days added to the monotonic / boot clocks (VERIF_UPTIME_DAYS), per chunk


def run_cases(ctx, flavour, lines, chunk=500, timeout=900, tz="UTC", jobs=None, lags=None, tzs=None, envs=None, uptimes=None):
    """envs: list of extra environment dicts cycled over the chunks (e.g. Qt logging variables set by the user)"""
    """lags: per-chunk delivery lag (ms of virtual wall-clock time that pass between the construction of a message and its
    formatting; VERIF_LAG_MS in the driver) - cycled over the chunks; None = no lag anywhere."""
    """lines: list of case lines (each with its own id as 2nd token).
    Returns (results: dict id -> list of tokens after the id, crashes: list of (id, line, kind, stderr))."""
    exe = build.driver(flavour, "drv_fmt")
    env = core.base_env(ctx.tmp, tz)
    chunks = [lines[i:i + chunk] for i in range(0, len(lines), chunk)]
    paths = []
    for n, ch in enumerate(chunks):
        path = os.path.join(ctx.tmp, "cases-%s-%d.txt" % (flavour, n))
        with open(path, "w") as f:
            f.write("\n".join(ch) + "\n")
        paths.append(path)
    lag_of = (lambda n: lags[n % len(lags)]) if lags else (lambda n: 0)
    # tzs: per-chunk time zone (POSIX TZ strings, no tzdata needed), cycled with a different period than the lags
    tz_of = (lambda n: tzs[(n // 2) % len(tzs)]) if tzs else (lambda n: tz)
    env_of = (lambda n: envs[n % len(envs)]) if envs else (lambda n: {})
    up_of = (lambda n: uptimes[n % len(uptimes)]) if uptimes else (lambda n: 0)
    res = core.run_parallel([["env", "VERIF_LAG_MS=%d" % lag_of(n), "VERIF_UPTIME_DAYS=%d" % up_of(n), "TZ=" + tz_of(n)]
                             + ["%s=%s" % kv for kv in env_of(n).items()] + [exe, p] for n, p in enumerate(paths)], env, jobs=jobs, timeout=timeout)
    results = {}
    crashes = []
    skipped = set()
    for n, (rc, out, err) in enumerate(res):
        out = out.decode("ascii", "replace")
        complete = out.rstrip().endswith("END")
        if rc == 0 and complete:
            _parse(out, results)
            continue
        if len(chunks[n]) == 1:
            # a chunk of one case needs no localisation: the case is the culprit
            ln = chunks[n][0]
            e = err.decode("utf-8", "replace") if isinstance(err, bytes) else err
            kind = "timeout" if rc == "timeout" else (core.sanitizer_kind(e) or "crash:rc=%s" % rc)
            crashes.append((ln.split()[1], ln, kind, e[-3000:]))
            continue
        # crash / abort / timeout inside the chunk: localise with per-line flushing
        pending = list(chunks[n])
        guard = 0
        while pending and guard < 12:
            guard += 1
            path = os.path.join(ctx.tmp, "retry-%s-%d.txt" % (flavour, n))
            with open(path, "w") as f:
                f.write("\n".join(pending) + "\n")
            env2 = dict(env, VERIF_FLUSH="1", VERIF_LAG_MS=str(lag_of(n)), TZ=tz_of(n), VERIF_UPTIME_DAYS=str(up_of(n)), **env_of(n))
            rc2, out2, err2 = _run_chunk(exe, path, env2, timeout)
            got = {}
            _parse(out2, got)
            results.update(got)
            if rc2 == 0 and out2.rstrip().endswith("END"):
                pending = []
                break
            # first case without a result is the culprit
            culprit = None
            rest = []
            for ln in pending:
                cid = ln.split()[1]
                if culprit is None and cid not in got:
                    culprit = ln
                elif culprit is not None:
                    rest.append(ln)
            if culprit is None:
                raise core.Inconclusive("driver failed without a culprit case: rc=%s %s" % (rc2, err2[-500:]))
            kind = "timeout" if rc2 == "timeout" else (core.sanitizer_kind(err2) or "crash:rc=%s" % rc2)
            crashes.append((culprit.split()[1], culprit, kind, err2[-3000:]))
            pending = rest
        # crash budget for this chunk exhausted: the remaining cases are not explored
        for ln in pending:
            skipped.add(ln.split()[1])
    ctx.skipped_after_crash = getattr(ctx, "skipped_after_crash", 0) + len(skipped)
    for cid in skipped:
        results.pop(cid, None)
        crashes.append((cid, None, "skipped", ""))
    return results, crashes


def _parse(out, results):
    for ln in out.splitlines():
        if ln.startswith("R "):
            t = ln.split()
            results[t[1]] = t[2:]
