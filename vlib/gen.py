"""Seeded generators shared by the property checks."""
import random

from .core import hexs, hexb

TYPES = ["debug", "info", "warning", "critical", "fatal"]

ASCII_PRINT = [chr(c) for c in range(0x20, 0x7f)]
SPECIAL = ['"', "\\", "/", "\b", "\f", "\n", "\r", "\t", "\x00", "\x01", "\x1f", "\x7f", "\x85",
           "\u2028", "\u2029", "\ufffe", "\uffff", "\u200b", "\u200c", "\ufeff", "%", "{", "}", ":",
           "\u0301", "\u00e9", "e\u0301", "\u4e2d", "\U0001f600", "\U00010000", "\U0010ffff", " ", "?", ","]


def uni_char(rnd):
    r = rnd.random()
    if r < 0.45:
        return rnd.choice(ASCII_PRINT)
    if r < 0.75:
        return rnd.choice(SPECIAL)
    if r < 0.9:
        c = rnd.randint(0xa0, 0xffff)
        while 0xd800 <= c <= 0xdfff:
            c = rnd.randint(0xa0, 0xffff)
        return chr(c)
    if r < 0.95:
        return chr(rnd.randint(0, 0x1f))
    return chr(rnd.randint(0x10000, 0x10ffff))


def uni_text(rnd, maxlen=40, empty_p=0.08):
    if rnd.random() < empty_p:
        return ""
    n = rnd.randint(1, maxlen) if rnd.random() < 0.9 else rnd.randint(maxlen, maxlen * 6)
    return "".join(uni_char(rnd) for _ in range(n))


def ascii_text(rnd, maxlen=20, alphabet=None, minlen=0):
    alphabet = alphabet or ASCII_PRINT
    return "".join(rnd.choice(alphabet) for _ in range(rnd.randint(minlen, maxlen)))


def u16len(s):
    return len(s.encode("utf-16-le", "surrogatepass")) // 2


def u16(s):
    """list of UTF-16 code units"""
    b = s.encode("utf-16-le", "surrogatepass")
    return [b[i] | (b[i + 1] << 8) for i in range(0, len(b), 2)]


def from_u16(units):
    b = bytearray()
    for u in units:
        b.append(u & 0xff)
        b.append(u >> 8)
    return bytes(b).decode("utf-16-le", "surrogatepass")


# ---------------------------------------------------------------- message encoding for drv_fmt

class UInt(int):
    """an attribute value held as QVariant(uint)"""


class ULongLong(int):
    """an attribute value held as QVariant(qulonglong)"""


class Float32(float):
    """a number held in QVariant as a C float (QMetaType::Float); the Python value is the exact float32 value"""


def float32(x):
    import struct
    return Float32(struct.unpack("<f", struct.pack("<f", x))[0])


class NullStr(str):
    """a null QString (QString()), as opposed to an empty one (QString(""))"""


NULLSTR = NullStr("")


def enc_value(v):
    if v is None:
        return "N"
    if isinstance(v, NullStr):
        return "Q"
    if isinstance(v, bool):
        return "B %d" % (1 if v else 0)
    if isinstance(v, UInt):
        return "u %d" % v
    if isinstance(v, ULongLong):
        return "U %d" % v
    if isinstance(v, int):
        return "I %d" % v
    if isinstance(v, Float32):
        import struct
        return "F %08x" % struct.unpack("<I", struct.pack("<f", v))[0]
    if isinstance(v, float):
        import struct
        return "D %016x" % struct.unpack("<Q", struct.pack("<d", v))[0]
    if isinstance(v, str):
        return "S " + hexs(v)
    if isinstance(v, list):
        return "L %d %s" % (len(v), " ".join(enc_value(x) for x in v)) if v else "L 0"
    if isinstance(v, dict):
        if not v:
            return "M 0"
        return "M %d %s" % (len(v), " ".join(hexs(k) + " " + enc_value(x) for k, x in v.items()))
    raise TypeError(v)


def enc_msg(m):
    """m: dict(type=int, line=int, file=bytes|None, func=bytes|None, cat=bytes|None, text=str|None, attrs=list[(name,value)])"""
    def b(x):
        return "~" if x is None else hexb(x)
    parts = [str(m["type"]), str(m["line"]), b(m["file"]), b(m["func"]), b(m["cat"]),
             "~" if m["text"] is None else hexs(m["text"]), str(len(m["attrs"]))]
    for name, val in m["attrs"]:
        parts.append(hexs(name))
        parts.append(enc_value(val))
    return " ".join(parts)


def rand_ctx_bytes(rnd, maxlen=30, null_p=0.0):
    if rnd.random() < null_p:
        return None
    return ascii_text(rnd, maxlen).encode("ascii")


CATS = [b"default", b"network", b"app.ui", b"app.ui.dialogs", b"qt.core", b"a", b"db.sql", b"x-y_z.9"]
FILES = [b"/home/user/project/src/main.cpp", b"main.cpp", b"../src/a b.cpp", b"C:\\proj\\src\\win.cpp", b"", b"/x/y/"]
FUNCS = [b"void MyClass::myMethod(int, QString)", b"int main(int, char**)", b"", b"auto ns::f()::<lambda()>",
         b"bool operator==(const A&, const B&)", b"T tpl<T>::get() const [with T = int]"]
