"""Runner for drv_conc histories (C02, C03): one process per history, flavour plain/tsan/san, sanitizer triage."""
import os
import shutil
import subprocess
import time

from . import build, core, hist_conc, tsan

NO_PROGRESS_S = 30.0
WALL_S = 900.0

NOISES = ["0:0:0:0:", "{s}:300:0:0:", "{s}:50:100:150:logger.enter", "{s}:50:100:150:oth.enter", "{s}:120:120:60:",
          "{s}:0:400:0:logger", "{s}:0:0:300:oth.locked"]


def gen_history(rnd, mode, idx, flavour_cycle):
    producers = rnd.choice([2, 3, 8, 16, 32, 64]) if mode == "c02" else rnd.choice([2, 4, 8, 16])
    msgs = rnd.choice([20, 60, 150, 400])
    while producers * msgs > 6000:
        msgs //= 2
    flavour = flavour_cycle[idx % len(flavour_cycle)]
    if flavour != "plain":
        while producers * msgs > 2400:
            msgs //= 2
    cores = rnd.choice([0, 0, 1, 2, 4])
    if flavour != "plain" and cores in (1, 2):
        while producers * msgs > 600:
            msgs //= 2
    return {"mode": mode, "target": rnd.choice(["logger", "logger", "bare"]), "producers": producers, "msgs": max(msgs, 5),
            "sink": rnd.choice([0, 1, 2, 3, 4]), "noise": rnd.choice(NOISES).format(s=rnd.randint(1, 10 ** 6)),
            "cores": cores, "seed": rnd.randint(1, 10 ** 9), "burst": rnd.choice([0, 1, 10, 100, 500]),
            "flavour": flavour, "switches": (rnd.choice([0, 0, 0, 5, 40]) if mode == "c02" else 0),
            "variant": (rnd.choice(["plain", "plain", "plain", "early", "twohop"]) if mode == "c03" else "plain")}


def run_history(ctx, h, idx):
    exe = build.driver(h["flavour"], "drv_conc")
    d = os.path.join(ctx.tmp, "h%d" % idx)
    os.makedirs(d, exist_ok=True)
    out = os.path.join(d, "out")
    env = core.base_env(d)
    prefix = os.path.join(d, "tsan")
    if h["flavour"] == "tsan":
        env["TSAN_OPTIONS"] = tsan.options(prefix)
    argv = [exe, h["mode"], out, h["target"] if h["mode"] != "c02b" else h["fmt"], str(h["producers"]), str(h["msgs"]), str(h["sink"]), h["noise"],
            str(h["cores"]), str(h["seed"])]
    if h["mode"] == "c03":
        argv.append(str(h["burst"]))
        argv.append(h.get("variant", "plain"))
    elif h.get("switches"):
        argv.append(str(h["switches"]))
        if h.get("pace"):
            argv.append(str(h["pace"]))
    res = {"rc": None, "err": "", "v": [], "stats": {}, "tsan": None, "hooks": "", "stacks": ""}
    errp = os.path.join(d, "stderr")
    with open(errp, "wb") as errf:
        p = subprocess.Popen(argv, env=env, stdout=subprocess.DEVNULL, stderr=errf)
        last_hb, last_change, t0 = None, time.time(), time.time()
        while True:
            try:
                p.wait(timeout=0.5)
                res["rc"] = p.returncode
                break
            except subprocess.TimeoutExpired:
                pass
            try:
                hb = open(out + ".hb").read().strip()
            except OSError:
                hb = None
            now = time.time()
            if hb != last_hb or hb is None:
                # no heartbeat yet = the process is still starting up (loader, static initialisation under a sanitizer on a loaded
                # machine): that is not "no progress"; only the wall-clock watchdog (inconclusive) bounds it
                last_hb, last_change = hb, now
            # progress-based: no new observation for NO_PROGRESS_S while alive = hang (stacks attached); a run that is merely slow
            # is cut off after WALL_S and reported as inconclusive for this history, never as a verdict
            if now - last_change > NO_PROGRESS_S or now - t0 > WALL_S:
                res["rc"] = "hang" if now - last_change > NO_PROGRESS_S else "slow"
                if res["rc"] == "hang":
                    try:
                        g = subprocess.run(["gdb", "-p", str(p.pid), "-batch", "-ex", "thread apply all bt 10"], stdout=subprocess.PIPE,
                                           stderr=subprocess.DEVNULL, timeout=90, text=True, errors="replace")
                        res["stacks"] = "\n".join(l for l in g.stdout.splitlines() if l.startswith("#") or l.startswith("Thread"))[:4000]
                    except Exception as e:  # noqa
                        res["stacks"] = "gdb failed: %s" % e
                p.kill()
                p.wait()
                break
    res["err"] = open(errp, errors="replace").read()[-3000:]
    if res["rc"] == 0 and os.path.exists(out):
        recs, complete, hooks = hist_conc.parse(out)
        res["hooks"] = hooks
        if not complete:
            res["rc"] = "incomplete"
        elif h["mode"] == "c02":
            res["v"], res["stats"] = hist_conc.check_c02(recs)
        elif h["mode"] == "c02b":
            res["v"], res["stats"] = hist_conc.check_c02b(recs)
        else:
            res["v"], res["stats"] = hist_conc.check_c03(recs, h["target"])
    if h["flavour"] == "tsan":
        res["tsan"] = tsan.collect(prefix, "drv_conc")
    shutil.rmtree(d, ignore_errors=True)
    return res


def run_all(ctx, hists, jobs=None):
    for fl in sorted({h["flavour"] for h in hists}):
        build.driver(fl, "drv_conc")
    from concurrent.futures import ThreadPoolExecutor
    # histories want the cores for themselves: a few at a time
    with ThreadPoolExecutor(max_workers=jobs or 4) as ex:
        return list(ex.map(lambda t: run_history(ctx, t[1], t[0]), enumerate(hists)))
