"""Reading a log directory written by FileSink / RotatingFileSink back, independently of Qt:
rotated entries (plain or .gz via ref_gzip) in (date, numeric index) order, then the active file."""
import os

from . import ref_gzip, rot


def read_parts(d, fname):
    """-> list of (name, bytes or None, error or None) in rotation order, active file last."""
    rx = rot.scheme_re(fname)
    rotated = []
    for n in os.listdir(d):
        m = rx.match(n)
        if m:
            rotated.append((m.group(1), int(m.group(2)), n))
    rotated.sort()
    parts = []
    for _, _, n in rotated:
        data = open(os.path.join(d, n), "rb").read()
        if n.endswith(".gz"):
            try:
                payload, _ = ref_gzip.parse(data)
                parts.append((n, payload, None))
            except ref_gzip.GzipError as e:
                parts.append((n, None, str(e)))
        else:
            parts.append((n, data, None))
    p = os.path.join(d, fname)
    if os.path.exists(p):
        parts.append((fname, open(p, "rb").read(), None))
    return parts


def read_all(d, fname):
    """concatenated readable bytes + list of unreadable entries"""
    out = b""
    bad = []
    for n, data, err in read_parts(d, fname):
        if data is None:
            bad.append((n, err))
        else:
            out += data
    return out, bad
