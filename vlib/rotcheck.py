"""Common runner for the rotation-engine properties (C05-C09)."""
import json
import random

from . import rot, core


def sig_of(h, a):
    c = h.config()
    return (c["L"], c["N"], c["options"], c["fname"], c["gran_ns"], min(a.stats["rotations"], 12), min(a.stats["restarts"], 3),
            min(a.stats["retention_removals"], 5), min(a.stats["day_changes"], 3), tuple(sorted(h.tags)))


def run_property(ctx, pid, profile, quick, thorough, nontrivial, rule, flavour="san", extra_cov=None, min_distinct=2, mirror=None):
    if ctx.replay:
        rep = json.load(open(ctx.replay))["case"]
        hists = [rot.History.from_json(rep)]
    else:
        rnd = random.Random(ctx.seed * 7368787 + int(pid[1:]) * 1000003)
        hists = [rot.gen_history(rnd, profile) for _ in range(ctx.pick(quick, thorough))]
    results = rot.run_many(ctx, hists, flavour)
    totals = {}
    distinct = set()
    samples = []
    other = {}
    n_ok = 0
    class _A:
        pass
    for h, res in zip(hists, results):
        rc, err = res["rc"], res["err"]
        if rc != 0:
            kind = core.sanitizer_kind(err) or ("timeout" if rc == "timeout" else "crash:rc=%s" % rc)
            ctx.violation("%s:driver-%s" % (pid, kind), "history aborted: %s" % err[-800:], h.to_json())
            continue
        if not res["complete"]:
            raise core.Inconclusive("trace incomplete without a crash")
        n_ok += 1
        a = _A()
        a.v, a.stats = res["v"], res["stats"]
        for k, v in a.stats.items():
            totals[k] = totals.get(k, 0) + v if k not in ("max_rotated", "max_index") else max(totals.get(k, 0), v)
        seen = set()
        for prop, key, what in a.v:
            if mirror and key in mirror:
                prop, key = pid, mirror[key]
            if prop == pid:
                if key in seen:
                    continue
                seen.add(key)
                ctx.violation(key, "config=%s :: %s" % (h.config(), what), h.to_json())
            else:
                other[key] = other.get(key, 0) + 1
        if nontrivial(a):
            distinct.add(sig_of(h, a))
        if len(samples) < 3 and nontrivial(a) and len(h.ops) < 25:
            samples.append({"config": h.config(), "ops": [list(o[:2]) + [len(o[2]) if o[0] == "W" else ""] if o[0] == "W" else list(o[:2])
                                                          for o in h.ops][:25], "stats": a.stats})
    cov = {
        "evaluations": n_ok,
        "distinct_nontrivial": len(distinct),
        "rule": "operation histories (writes of hostile sizes, clock advances/day jumps, restarts, flushes, foreign files) against the real "
                "file sinks through SimplePipeline::sendToFile under a virtual clock with per-write mtime stamping and a syscall monitor; "
                "every directory state after every operation and every rename/unlink/truncate event analysed offline; " + rule +
                "; distinct by (L, N, options, file name shape, granularity, #rotations, #restarts, #removals, tags)",
        "samples": samples or [{"config": hists[0].config()}],
        "totals": totals,
        "violations_of_sibling_properties_seen": other,
    }
    if extra_cov:
        cov.update(extra_cov(totals))
    return ctx.finish(cov, ["LC_ALL=C.UTF-8 (local 8-bit encoding is UTF-8)", "process time zone: UTC or a fixed-offset POSIX zone (+9, -11, +5:45, -3:30) per history", "file mtimes are stamped from the virtual clock at "
                            "every write()/create by the syscall shim (granularity emulated by truncation)"],
                      min_evals=1 if ctx.replay else 50, min_distinct=min_distinct)
