"""Independent RFC 1952 reader: header/trailer parsed by hand, raw deflate via zlib.decompressobj(-15)."""
import struct
import zlib


class GzipError(Exception):
    pass


def parse(data):
    """returns (payload_bytes, info dict); raises GzipError with a precise reason"""
    if len(data) < 18:
        raise GzipError("too short for a gzip member (%d bytes)" % len(data))
    if data[0:2] != b"\x1f\x8b":
        raise GzipError("bad magic %r" % data[0:2])
    if data[2] != 8:
        raise GzipError("compression method %d != 8" % data[2])
    flg = data[3]
    if flg & 0xe0:
        raise GzipError("reserved FLG bits set: %#x" % flg)
    pos = 10
    if flg & 4:   # FEXTRA
        if pos + 2 > len(data):
            raise GzipError("truncated FEXTRA")
        xlen = struct.unpack("<H", data[pos:pos + 2])[0]
        pos += 2 + xlen
    if flg & 8:   # FNAME
        end = data.find(b"\0", pos)
        if end < 0:
            raise GzipError("unterminated FNAME")
        pos = end + 1
    if flg & 16:  # FCOMMENT
        end = data.find(b"\0", pos)
        if end < 0:
            raise GzipError("unterminated FCOMMENT")
        pos = end + 1
    if flg & 2:   # FHCRC
        if pos + 2 > len(data):
            raise GzipError("truncated FHCRC")
        want = struct.unpack("<H", data[pos:pos + 2])[0]
        if (zlib.crc32(data[:pos]) & 0xffff) != want:
            raise GzipError("header CRC16 mismatch")
        pos += 2
    if pos > len(data) - 8:
        raise GzipError("header runs into trailer")
    d = zlib.decompressobj(-15)
    try:
        payload = d.decompress(data[pos:])
        payload += d.flush()
    except zlib.error as e:
        raise GzipError("deflate stream invalid: %s" % e)
    if not d.eof:
        raise GzipError("deflate stream not terminated (truncated)")
    rest = d.unused_data
    if len(rest) != 8:
        raise GzipError("expected exactly 8 trailer bytes after the deflate stream, found %d" % len(rest))
    crc, isize = struct.unpack("<II", rest)
    if crc != (zlib.crc32(payload) & 0xffffffff):
        raise GzipError("CRC-32 mismatch: trailer %08x computed %08x" % (crc, zlib.crc32(payload) & 0xffffffff))
    if isize != (len(payload) & 0xffffffff):
        raise GzipError("ISIZE mismatch: trailer %d actual %d" % (isize, len(payload)))
    return payload, {"flg": flg, "header_len": pos, "compressed_len": len(data) - pos - 8}
