"""Shared check plumbing: context, violation/known-finding bookkeeping, evidence, env."""
import json
import os
import shutil
import subprocess
import sys
import tempfile
import time

VERIF = os.path.dirname(os.path.dirname(os.path.abspath(__file__)))
FINDINGS_FILE = os.path.join(VERIF, "known_findings.json")


class Inconclusive(Exception):
    """Harness failure / monitor observed too little: exit 2, never a verdict."""


def hexs(s):
    """python str -> hex of UTF-16-LE code units ('-' for empty)."""
    b = s.encode("utf-16-le", "surrogatepass")
    return b.hex() if b else "-"


def unhexs(h):
    if h in ("-", "", "~"):
        return ""
    return bytes.fromhex(h).decode("utf-16-le", "surrogatepass")


def hexb(b):
    return b.hex() if b else "-"


def unhexb(h):
    return b"" if h in ("-", "") else bytes.fromhex(h)


def base_env(tmp, tz="UTC", qt_locale=None):
    """qt_locale: a locale name for Qt's QLocale::system() (LANG; Qt carries its own CLDR data, the C library need not know the
    locale) while the C library's character set stays UTF-8 (LC_CTYPE=C.UTF-8)."""
    env = {k: v for k, v in os.environ.items()
           if k not in ("QT_LOGGING_RULES", "QT_MESSAGE_PATTERN", "QT_LOGGING_CONF",
                        "QT_LOGGING_DEBUG", "QT_FATAL_WARNINGS", "QT_FATAL_CRITICALS",
                        "QT_LOGGING_TO_CONSOLE", "QT_FORCE_STDERR_LOGGING",
                        "QT_ASSUME_STDERR_HAS_CONSOLE")}
    home = os.path.join(tmp, "home")
    os.makedirs(home, exist_ok=True)
    env.update({
        "HOME": home, "XDG_CONFIG_HOME": home, "XDG_CONFIG_DIRS": home,
        "LC_ALL": "C.UTF-8", "LANG": "C.UTF-8", "TZ": tz, "QT_NO_GLIB": "1",
        **({"LC_ALL": "", "LC_CTYPE": "C.UTF-8", "LANG": qt_locale} if qt_locale else {}),
        "ASAN_OPTIONS": "abort_on_error=1:detect_leaks=0:allocator_may_return_null=0:"
                        "handle_abort=1:detect_stack_use_after_return=0",
        "UBSAN_OPTIONS": "print_stacktrace=1:halt_on_error=1",
    })
    if qt_locale:
        env.pop("LC_ALL", None)
    return env


class Ctx:
    def __init__(self, pid, tier, seed, level, replay=None):
        self.pid = pid
        self.tier = tier
        self.seed = seed
        self.level = level
        self.replay = replay
        self.t0 = time.time()
        self.tmp = tempfile.mkdtemp(prefix="verif-%s-" % pid)
        self.violations = []      # (key, what, replay_obj)
        self.notes = []
        self.quick = tier == "quick"
        try:
            self.findings = [f for f in json.load(open(FINDINGS_FILE))
                             if f.get("property") == pid]
        except FileNotFoundError:
            self.findings = []

    def pick(self, quick, thorough):
        return quick if self.quick else thorough

    def cleanup(self):
        shutil.rmtree(self.tmp, ignore_errors=True)

    def violation(self, key, what, replay_obj=None):
        self.violations.append((key, what, replay_obj))

    def fresh_violations(self):
        """violations recorded so far that no open known finding covers"""
        open_keys = {f["key"] for f in self.findings if f.get("status") == "open"}
        return [v for v in self.violations if v[0] not in open_keys]

    def note(self, s):
        self.notes.append(s)
        print("note: " + s)

    # ------------------------------------------------------------------
    def finish(self, coverage, assumptions=(), min_evals=1, min_distinct=2):
        """Write evidence, print verdict lines, return the exit code."""
        open_keys = {f["key"]: f for f in self.findings if f.get("status") == "open"}
        known_hit = {}
        fresh = {}
        for key, what, rep in self.violations:
            if key in open_keys:
                known_hit.setdefault(key, [0, what])[0] += 1
            else:
                fresh.setdefault(key, []).append((what, rep))
        for key, (n, what) in sorted(known_hit.items()):
            print("KNOWN-FINDING: property=%s key=%s occurrences=%d %s"
                  % (self.pid, key, n, open_keys[key].get("what", what)))
        rc = 0
        scratch = bool(os.environ.get("VERIF_NO_EVIDENCE"))
        rdir = os.path.join(VERIF, "replays", "_scratch", self.pid) if scratch else os.path.join(VERIF, "replays", self.pid)
        nfile = 0
        for key, items in sorted(fresh.items()):
            rc = 1
            os.makedirs(rdir, exist_ok=True)
            what, rep = items[0]
            path = os.path.join(rdir, "%d-%d.json" % (self.seed, nfile))
            nfile += 1
            with open(path, "w") as f:
                json.dump({"property": self.pid, "key": key, "what": what, "seed": self.seed,
                           "tier": self.tier, "occurrences": len(items), "case": rep},
                          f, indent=1, default=str)
            print("VIOLATION property=%s replay=%s key=%s occurrences=%d :: %s"
                  % (self.pid, path, key, len(items), what[:600]))
        cov = dict(coverage)
        cov.setdefault("known_finding_hits", {k: v[0] for k, v in known_hit.items()})
        cov.setdefault("fresh_violation_keys", sorted(fresh))
        if self.notes:
            cov.setdefault("notes", self.notes[:50])
        ev = {
            "property_id": self.pid, "tier": self.tier, "seed": self.seed, "level": self.level,
            "coverage": cov, "assumptions": list(assumptions),
            "wall_s": round(time.time() - self.t0, 2),
            "violations": sum(len(v) for v in fresh.values()),
        }
        if not self.replay and not scratch:
            os.makedirs(os.path.join(VERIF, "evidence"), exist_ok=True)
            with open(os.path.join(VERIF, "evidence", self.pid + ".json"), "w") as f:
                json.dump(ev, f, indent=1, default=str)
        if rc == 0 and not self.replay:
            if cov.get("evaluations", 0) < min_evals or cov.get("distinct_nontrivial", 0) < min_distinct:
                print("INCONCLUSIVE property=%s monitors observed too little "
                      "(evaluations=%s distinct_nontrivial=%s, need %d/%d)"
                      % (self.pid, cov.get("evaluations"), cov.get("distinct_nontrivial"),
                         min_evals, min_distinct))
                return 2
        if rc == 0:
            print("HELD property=%s tier=%s seed=%d evaluations=%s distinct_nontrivial=%s wall=%.1fs"
                  % (self.pid, self.tier, self.seed, cov.get("evaluations"),
                     cov.get("distinct_nontrivial"), time.time() - self.t0))
        return rc


def run_parallel(cmds, env, jobs=None, timeout=600, stdin_data=None):
    """Run a list of argv in parallel; returns list of (rc, stdout_bytes, stderr_text)."""
    jobs = jobs or (os.cpu_count() or 4)
    results = [None] * len(cmds)
    running = {}
    idx = 0
    while idx < len(cmds) or running:
        while idx < len(cmds) and len(running) < jobs:
            p = subprocess.Popen(cmds[idx], env=env, stdout=subprocess.PIPE, stderr=subprocess.PIPE)
            running[idx] = (p, time.time())
            idx += 1
        done = []
        for i, (p, t0) in running.items():
            if p.poll() is not None:
                done.append(i)
        if not done:
            # block on one
            i, (p, t0) = next(iter(running.items()))
            try:
                out, err = p.communicate(timeout=max(1, timeout - (time.time() - t0)))
                results[i] = (p.returncode, out, err.decode("utf-8", "replace"))
            except subprocess.TimeoutExpired:
                p.kill()
                out, err = p.communicate()
                results[i] = ("timeout", out, err.decode("utf-8", "replace"))
            del running[i]
            continue
        for i in done:
            p, t0 = running.pop(i)
            out, err = p.communicate()
            results[i] = (p.returncode, out, err.decode("utf-8", "replace"))
    return results


def sanitizer_kind(stderr):
    """Classify a sanitizer abort from stderr; returns short key or None."""
    for pat, key in (("Error: function requires a valid iterator range", "glibcxx-debug:invalid-range"),
                     ("In function:", "glibcxx-debug"),
                     ("runtime error:", "ubsan"),
                     ("AddressSanitizer", "asan"),
                     ("ThreadSanitizer", "tsan"),
                     ("Assertion", "assert")):
        if pat in stderr:
            if key == "asan":
                import re
                m = re.search(r"AddressSanitizer: ([a-zA-Z-]+)", stderr)
                return "asan:" + (m.group(1) if m else "?")
            return key
    return None
