"""Rotation engine, Python side: history generation, execution through drv_rot, offline trace analysis
(shared by C05-C09; C10 builds on it)."""
import datetime
import json
import os
import random
import re
import shutil
import subprocess

from . import build, core, ref_gzip
from .core import hexs, hexb

O_TRUNC = 0o1000
OPT_STARTUP, OPT_DAILY, OPT_COMPRESS = 1, 2, 4
DAY_MS = 86400000
FNAMES = ["app.log", "app", "a+b(1).log", "my.app.log", ".app.log", "w[3].log", "[p]s{1}.log"]


def ascii_digits(s):
    """any Unicode decimal digit -> ASCII (rotated names carry the date in the system locale's digits)"""
    import unicodedata
    return "".join(str(unicodedata.digit(c)) if c.isdigit() and not c.isascii() else c for c in s)


def split_name(fname):
    """Qt completeBaseName / suffix"""
    if "." in fname:
        i = fname.rfind(".")
        return fname[:i], fname[i + 1:]
    return fname, ""


def scheme_re(fname):
    base, sfx = split_name(fname)
    pat = "^" + re.escape(base) + r"\.(\d{4}-\d{2}-\d{2})\.(\d+)"
    if sfx:
        pat += r"\." + re.escape(sfx)
    pat += r"(\.gz)?$"
    return re.compile(pat)


# fixed-offset POSIX time zones (no tzdata needed, no DST): name -> seconds east of UTC
TZ_CHOICES = {"UTC": 0, "AAA-9": 9 * 3600, "BBB+11": -11 * 3600, "CCC-5:45": 5 * 3600 + 45 * 60, "DDD+3:30": -(3 * 3600 + 30 * 60)}
_TZ_OFFSET = [0]   # offset of the history being analysed (the analysis is single-threaded per process)


def day_of(ms, offset_s=None):
    """calendar day of an epoch-millisecond stamp in the history's time zone"""
    off = _TZ_OFFSET[0] if offset_s is None else offset_s
    return datetime.datetime.fromtimestamp(ms / 1000.0 + off, datetime.timezone.utc).strftime("%Y-%m-%d")


# ------------------------------------------------------------------ history generation

class History:
    def __init__(self):
        self.L = 0
        self.N = 0
        self.options = 0
        self.fname = "app.log"
        self.gran_ns = 1
        self.autoobs = 1
        self.start_ms = 0
        self.real = False
        self.tz = "UTC"
        self.tmp_other_fs = False   # TMPDIR on another file system than the log directory
        self.loc = ""           # Qt system locale ("" = C.UTF-8); e.g. fa_IR.UTF-8 has non-ASCII native digits
        self.ops = []          # tuples: ("W", id, text, lag) ("ADV", ms) ("RESTART",) ("FLUSH",) ("FOREIGN", name, bytes) ("MKDIR", name) ("MIDNIGHT", k)
        self.tags = set()

    def config(self):
        return {"L": self.L, "N": self.N, "options": self.options, "fname": self.fname, "gran_ns": self.gran_ns,
                "autoobs": self.autoobs, "start_ms": self.start_ms, "real": self.real, "tz": self.tz, "loc": self.loc, "tmp_other_fs": self.tmp_other_fs}

    def to_json(self):
        ops = []
        for op in self.ops:
            if op[0] == "FOREIGN":
                ops.append(["FOREIGN", op[1], op[2].hex()])
            else:
                ops.append(list(op))
        return {"config": self.config(), "ops": ops, "tags": sorted(self.tags)}

    @staticmethod
    def from_json(d):
        h = History()
        for k, v in d["config"].items():
            setattr(h, k, v)
        for op in d["ops"]:
            if op[0] == "FOREIGN":
                h.ops.append(("FOREIGN", op[1], bytes.fromhex(op[2])))
            else:
                h.ops.append(tuple(op))
        h.tags = set(d.get("tags", []))
        return h

    def script(self, d):
        path = os.path.join(d, self.fname)
        out = ["DIR " + d, "CLOCK " + ("real" if self.real else str(self.start_ms)), "GRAN %d" % (0 if self.real else self.gran_ns),
               "AUTOOBS %d" % self.autoobs]
        openline = "OPEN %s %d %d %d" % (path, self.L, self.N, self.options)
        out.append(openline)
        for op in self.ops:
            if op[0] == "W":
                out.append("WRITE %d %s %d" % (op[1], hexs(op[2]), op[3]))
            elif op[0] == "ADV":
                out.append("ADVANCE %d" % op[1])
            elif op[0] == "RESTART":
                out.append("CLOSE")
                if len(op) > 1:
                    # the program comes back with a different file-count limit (configuration changed between runs)
                    openline = "OPEN %s %d %d %d" % (path, self.L, op[1], self.options)
                out.append(openline)
            elif op[0] == "FLUSH":
                out.append("FLUSH")
            elif op[0] == "FOREIGN":
                out.append("FOREIGN %s %s" % (op[1], hexb(op[2])))
            elif op[0] == "MKDIR":
                out.append("MKDIR " + op[1])
            elif op[0] == "MIDNIGHT":
                out.append("MIDNIGHT %d" % op[1])
        out.append("CLOSE")
        return "\n".join(out) + "\n"


def record_text(rid, payload):
    return "R%d:%s" % (rid, payload)


def record_bytes(text):
    return text.encode("utf-8") + b"\n"


BMP_POOL = [chr(c) for c in list(range(0x21, 0x7f)) + list(range(0xa1, 0x24f)) + list(range(0x400, 0x4ff)) + list(range(0x4e00, 0x4e80))]


def gen_payload(rnd, L, rid, big_ok=False, newline_ok=True):
    prefix = len("R%d:" % rid) + 1
    r = rnd.random()
    if L > 0 and r < 0.45:
        target = L + rnd.choice([-2, -1, 0, 1, 2]) - rnd.choice([0, 0, 0, prefix + 3, L // 2])
        n = max(0, target - prefix)
        if rnd.random() < 0.25 and n >= 2:
            # multi-byte: UTF-16 length != UTF-8 length
            parts = []
            used = 0
            while used + 4 <= n and len(parts) < 50000:
                ch = rnd.choice("é中😀")
                parts.append(ch)
                used += len(ch.encode("utf-8"))
            return "".join(parts) + "x" * (n - used)
        return "".join(rnd.choices("abcdefgh", k=min(n, 200000)))
    if r < 0.55:
        return ""
    if r < 0.62:
        return rnd.choice("aZ9é中")
    if r < 0.75:
        return "".join(rnd.choice(BMP_POOL) for _ in range(rnd.randint(1, 60)))
    if r < 0.82:
        return rnd.choice(["ab", "xyz ", "0"]) * rnd.randint(1, 400)
    if r < 0.86 and newline_ok:
        return "line1\nline2" + "\n" * rnd.randint(0, 2)
    if r < 0.885:
        # binary-looking content: carriage returns (alone and as CRLF), tabs, other C0 controls, DEL
        return "".join(rnd.choice(["\r", "\r\n" if newline_ok else "\r", "\t", "\x1a", "\x7f", "\x01", "\x1b[0m", "a", "zz", "\x00", "b\x00c"])
                       for _ in range(rnd.randint(1, 40)))
    if r < 0.9 and big_ok:
        n = rnd.choice([8191, 8192, 8193, 16383, 16384, 16385, 65535, 65536, 65537, 200000, 1 << 20, (1 << 22) - 7])
        if rnd.random() < 0.5:
            return "".join(rnd.choices(BMP_POOL, k=n // 2))   # incompressible-ish
        return ("log line %d " % rid) * (n // 12)
    return "".join(rnd.choice("abc def") for _ in range(rnd.randint(1, 30)))


def foreign_names(fname):
    base, sfx = split_name(fname)
    dot = ("." + sfx) if sfx else ""
    cands = ["x" + base + ".2001-01-01.1" + dot, base + ".2001-01-01.1" + dot + "x", base + ".2001-1-1.1" + dot,
             base + ".2001-01-01" + dot, base + ".2001-01-01.1" + dot + ".bak", base + "2.2001-01-01.1" + dot,
             base + ".2001-01-01.1" + dot + ".gz.tmp", base + ".2001-01-01.one" + dot, base.upper() + ".2001-01-01.1" + dot,
             base + ".backup", "other.log", base + ".2001-01-01.1" + dot + ".gzip", base + ".20010101.1" + dot]
    rx = scheme_re(fname)
    return [c for c in cands if not rx.match(c) and c != fname and "/" not in c]


def gen_history(rnd, profile):
    """profile: dict of knobs (all optional):
       L_choices, N_choices, option_choices, n_ops, p_day, p_restart, p_foreign, p_lag, p_midnight, burst, big, gran_choices, real_p"""
    h = History()
    h.L = rnd.choice(profile.get("L_choices", [0, 1, 2, 7, 64, 1000, 65536]))
    h.N = rnd.choice(profile.get("N_choices", [-1, 0, 1, 2, 3, 5, 12]))
    h.options = rnd.choice(profile.get("option_choices", list(range(8))))
    h.fname = rnd.choice(profile.get("fnames", FNAMES))
    h.gran_ns = rnd.choice(profile.get("gran_choices", [1, 1000000, 1000000000]))
    h.autoobs = rnd.choice(profile.get("autoobs_choices", [1, 2]))
    h.real = rnd.random() < profile.get("real_p", 0.0)
    big_ok = rnd.random() < profile.get("big_p", 0.0)
    base_day = datetime.datetime(2015, 1, 1, tzinfo=datetime.timezone.utc).timestamp() * 1000
    h.start_ms = int(base_day + rnd.randrange(0, 500) * DAY_MS + rnd.randrange(0, DAY_MS))
    if rnd.random() < profile.get("tz_p", 0.3):
        h.tz = rnd.choice(sorted(TZ_CHOICES))
    h.tmp_other_fs = rnd.random() < 0.3
    if rnd.random() < profile.get("loc_p", 0.12):
        h.loc = rnd.choice(["fa_IR.UTF-8", "ar_EG.UTF-8", "ne_NP.UTF-8", "de_DE.UTF-8", "ja_JP.UTF-8"])
    if rnd.random() < 0.15:
        # close to (local) midnight
        off_ms = TZ_CHOICES[h.tz] * 1000
        h.start_ms = ((h.start_ms + off_ms) // DAY_MS) * DAY_MS + DAY_MS - rnd.randint(1, 3000) - off_ms
    if rnd.random() < profile.get("marathon_p", 0.0):
        # more rotations under one date than any everyday run sees: the index crosses 9->10, 99->100 and 999->1000 while retention keeps
        # the directory small, with coarse time stamps so that neighbours tie; a restart somewhere on the way
        h.L = rnd.choice([1, 2, 7])
        h.N = rnd.choice(profile.get("marathon_N", [2, 3, 4, 5, 12]))
        h.gran_ns = rnd.choice([1000000, 1000000000, 2000000000])
        h.real = False
        h.start_ms = (h.start_ms // DAY_MS) * DAY_MS + 3600000
        h.tz = "UTC"
        n = rnd.choice(profile.get("marathon_n", [101, 130, 1003, 1030, 1100]))
        restart_at = rnd.randint(1, n)
        for rid in range(1, n + 1):
            h.ops.append(("W", rid, record_text(rid, "m" * max(1, h.L)), 0))
            if rid == restart_at:
                h.ops.append(("RESTART",))
            elif rnd.random() < 0.02:
                h.ops.append(("ADV", rnd.choice([1, 999, 1000, 2500])))
        h.tags.add("marathon")
        return h
    if rnd.random() < profile.get("pingpong_p", 0.0):
        # message dates that go back and forth between two days (messages created on day X are delivered after messages created on day
        # Y: producers pre-empted around midnight, or a clock that was stepped back), with a restart in between: names of both days keep
        # being handed out alternately
        h.L = rnd.choice([7, 20, 64])
        h.N = rnd.choice([-1, 0, 12])
        h.options = rnd.choice([4, 5, 4, 5, 0, 1, 2, 3, 6, 7])
        h.real = False
        h.tz = "UTC"
        h.start_ms = (h.start_ms // DAY_MS) * DAY_MS + rnd.choice([3600000, 12 * 3600000])
        rid = 0
        def burst_w(k, lag):
            nonlocal rid
            for _ in range(k):
                rid += 1
                h.ops.append(("W", rid, record_text(rid, "p" * rnd.randint(1, h.L)), lag))
        burst_w(rnd.randint(4, 12), 0)                  # day X: a handful of rotated files
        h.ops.append(("ADV", DAY_MS))
        burst_w(rnd.randint(1, 3), 0)                   # day Y: one or two
        if rnd.random() < 0.85:
            h.ops.append(("RESTART",))
        for _ in range(rnd.randint(1, 4)):
            burst_w(rnd.randint(1, 3), 0)               # Y again ...
            burst_w(rnd.randint(2, 6), -DAY_MS)         # ... and messages still dated X, delivered after younger ones
            if rnd.random() < 0.2:
                h.ops.append(("RESTART",))
        h.tags.add("pingpong")
        h.tags.add("lag")
        return h
    n_ops = rnd.randint(*profile.get("n_ops", (5, 60)))
    rid = 0
    curN = h.N
    p_day = profile.get("p_day", 0.06) if not h.real else 0.0
    p_restart = profile.get("p_restart", 0.06)
    p_foreign = profile.get("p_foreign", 0.02)
    p_lag = profile.get("p_lag", 0.0) if not h.real else 0.0
    p_midnight = profile.get("p_midnight", 0.0) if not h.real else 0.0
    burst = profile.get("burst", 0.0)
    fnames = foreign_names(h.fname)
    used_foreign = set()
    i = 0
    while i < n_ops:
        i += 1
        r = rnd.random()
        if r < burst:
            # many rotations inside one timestamp tick
            k = rnd.randint(3, 14)
            for _ in range(k):
                rid += 1
                pl = "b" * max(1, h.L) if h.L > 0 else "burst"
                h.ops.append(("W", rid, record_text(rid, pl), 0))
            h.tags.add("burst")
            continue
        r = rnd.random()
        if r < p_day:
            n = rnd.choice([1, 1, 1, 2, 3, 7, 40])
            h.ops.append(("ADV", n * DAY_MS + rnd.randint(-3600000, 3600000)))
            h.tags.add("daychange")
        elif r < p_day + p_restart:
            if curN != 1 and rnd.random() < profile.get("p_reconf", 0.0):
                curN = rnd.choice([2, 3, 5]) if curN != 2 else rnd.choice([3, 12])
                h.ops.append(("RESTART", curN))
                h.tags.add("reconf")
            else:
                h.ops.append(("RESTART",))
            h.tags.add("restart")
        elif r < p_day + p_restart + p_foreign and fnames:
            nm = rnd.choice(fnames)
            if nm not in used_foreign:
                used_foreign.add(nm)
                if rnd.random() < 0.15:
                    h.ops.append(("MKDIR", nm))
                else:
                    h.ops.append(("FOREIGN", nm, bytes(rnd.randrange(256) for _ in range(rnd.randint(0, 40)))))
                h.tags.add("foreign")
        elif r < p_day + p_restart + p_foreign + 0.05:
            h.ops.append(("ADV", rnd.choice([1, 5, 999, 1000, 1001, 2500, 60000, 3600000])))
        elif r < p_day + p_restart + p_foreign + 0.08:
            h.ops.append(("FLUSH",))
        else:
            rid += 1
            lag = 0
            if rnd.random() < p_lag:
                lag = rnd.choice([1, 1000, 60000, 3600000, DAY_MS - 1, DAY_MS + 5])
                h.tags.add("lag")
            if rnd.random() < p_midnight:
                h.ops.append(("MIDNIGHT", rnd.randint(1, 4)))
                h.tags.add("midnight-mid-op")
            pl = gen_payload(rnd, h.L, rid, big_ok=big_ok)
            h.ops.append(("W", rid, record_text(rid, pl), lag))
    return h


# ------------------------------------------------------------------ execution

def run_history(ctx, h, flavour="san", idx=0, keep_dir=False):
    """returns (trace_records, rc, stderr)"""
    exe = build.driver(flavour, "drv_rot")
    d = os.path.join(ctx.tmp, "rot-%d-%d" % (os.getpid(), idx))
    shutil.rmtree(d, ignore_errors=True)
    os.makedirs(os.path.join(d, "logs"))
    script = os.path.join(d, "script.txt")
    trace = os.path.join(d, "trace.jsonl")
    with open(script, "w") as f:
        f.write(h.script(os.path.join(d, "logs")))
    env = core.base_env(ctx.tmp, tz=getattr(h, "tz", "UTC"), qt_locale=getattr(h, "loc", "") or None)
    other_tmp = None
    if getattr(h, "tmp_other_fs", False) and os.path.isdir("/dev/shm") and os.stat("/dev/shm").st_dev != os.stat(d).st_dev:
        # the process's temporary directory lives on a different file system than the logs (tmpfs /tmp vs /var/log)
        other_tmp = "/dev/shm/verif-tmp-%d-%d" % (os.getpid(), idx)
        os.makedirs(other_tmp, exist_ok=True)
        env["TMPDIR"] = other_tmp
    try:
        p = subprocess.run([exe, script, trace], env=env, stdout=subprocess.PIPE, stderr=subprocess.PIPE, timeout=300)
        rc, err = p.returncode, p.stderr.decode("utf-8", "replace")
    except subprocess.TimeoutExpired as e:
        rc, err = "timeout", (e.stderr or b"").decode("utf-8", "replace")
    recs = []
    if os.path.exists(trace):
        with open(trace) as f:
            for ln in f:
                try:
                    recs.append(json.loads(ln))
                except ValueError:
                    break
    if other_tmp:
        shutil.rmtree(other_tmp, ignore_errors=True)
    if not keep_dir:
        shutil.rmtree(d, ignore_errors=True)
    return recs, rc, err


class _Ctx:
    def __init__(self, tmp):
        self.tmp = tmp


def _worker(arg):
    tmp, hj, flavour, idx = arg
    h = History.from_json(hj)
    recs, rc, err = run_history(_Ctx(tmp), h, flavour, idx)
    if rc != 0:
        return {"rc": rc, "err": err[-3000:], "v": [], "stats": {}, "complete": False}
    complete = bool(recs) and recs[-1]["cmd"] == "END"
    a = analyze(h, recs)
    return {"rc": 0, "err": "", "v": a.v, "stats": a.stats, "complete": complete}


def run_many(ctx, hists, flavour="san", jobs=None):
    """parallel execution + analysis in worker processes; returns list of result dicts"""
    from concurrent.futures import ProcessPoolExecutor
    build.driver(flavour, "drv_rot")
    jobs = jobs or (os.cpu_count() or 4)
    args = [(ctx.tmp, h.to_json(), flavour, i) for i, h in enumerate(hists)]
    with ProcessPoolExecutor(max_workers=jobs) as ex:
        return list(ex.map(_worker, args, chunksize=4))


# ------------------------------------------------------------------ analysis

class Analysis:
    """Replays a trace and accumulates violations per property: self.v = list of (prop, key, what)."""

    def __init__(self, h, recs):
        self.h = h
        self.recs = recs
        self.v = []
        self.rx = scheme_re(h.fname)
        self.byid = {}
        self.written = []        # ids in write order
        self.msg_ms = {}
        self.live = {}           # name -> {"bytes","mtime","dir"}
        self.entries = []        # rotated entries in creation order
        self.by_name = {}        # current name -> entry
        self.names_ever = {}     # rotated name (without .gz) -> list of entries that ever held it
        self.foreign = {}        # name -> (bytes, mtime, isdir)
        self.lost = []           # (name, bytes, op, cause) content destroyed by truncation / overwrite / active unlink
        self.stats = {"rotations": 0, "compressions": 0, "retention_removals": 0, "restarts": 0, "gz_checked": 0,
                      "mtime_ties": 0, "observations": 0, "max_rotated": 0, "day_changes": 0, "records": 0, "max_index": 0}
        self._parse_cache = {}
        self.adopted_ids = set()
        for op in h.ops:
            if op[0] == "W":
                self.byid[op[1]] = record_bytes(op[2])
        self.curN = h.N
        self.restart_ns = [(op[1] if len(op) > 1 else None) for op in h.ops if op[0] == "RESTART"]
        self.rot_since_reconf = True
        self.daily = bool(h.options & OPT_DAILY)
        self.rotating = h.L > 0 or bool(h.options & (OPT_STARTUP | OPT_DAILY))

    def add(self, prop, key, what, op):
        self.v.append((prop, key, "op %s: %s" % (op, what)))

    # -- record parsing
    def parse(self, content):
        """-> (ids, partial_tail(bool), error or None)"""
        k = hash(content)
        c = self._parse_cache.get(k)
        if c is not None and c[3] == len(content):
            return c[:3]
        ids = []
        pos = 0
        n = len(content)
        err = None
        partial = False
        while pos < n:
            m = re.match(rb"R(\d+):", content[pos:pos + 16])
            if not m:
                # maybe a partial prefix of "R<id>:" at the tail
                tail = content[pos:]
                if len(tail) < 12 and re.fullmatch(rb"R\d*", tail):
                    partial = True
                    break
                err = "unparsable bytes at offset %d: %r" % (pos, content[pos:pos + 24])
                break
            rid = int(m.group(1))
            rec = self.byid.get(rid)
            if rec is None:
                err = "unknown record id %d at offset %d" % (rid, pos)
                break
            if content[pos:pos + len(rec)] == rec:
                ids.append(rid)
                pos += len(rec)
            elif rec.startswith(content[pos:]):
                partial = True
                break
            else:
                err = "record %d altered/split at offset %d: file has %r, written %r" % (rid, pos, content[pos:pos + 40], rec[:40])
                break
        self._parse_cache[k] = (ids, partial, err, len(content))
        return ids, partial, err

    def decode(self, name, data, op, report=True):
        """content of a rotated file as log bytes; checks gzip validity for .gz"""
        if not name.endswith(".gz"):
            return data
        self.stats["gz_checked"] += 1
        try:
            payload, info = ref_gzip.parse(data)
            return payload
        except ref_gzip.GzipError as e:
            if report:
                self.add("C08", "C08:invalid-gzip", "%s is not a valid gzip stream: %s" % (name, e), op)
            return None

    # -- main loop
    def run(self):
        h = self.h
        logdir = None
        active_flushed = True
        for rec in self.recs:
            op = "%d/%s" % (rec["i"], rec["cmd"])
            cmd = rec["cmd"]
            if cmd == "WRITE":
                self.written.append(rec["id"])
                self.msg_ms[rec["id"]] = rec["msg_ms"]
                self.stats["records"] += 1
            if cmd == "OPEN" and rec["i"] > 0:
                self.stats["restarts"] += 1
                nxt = self.restart_ns.pop(0) if self.restart_ns else None
                if nxt is not None:
                    self.curN = nxt
                    self.rot_since_reconf = False
            removed_this_op = []
            rotated_before = sum(1 for e in self.entries if e["removed"] is None)
            for ev in rec.get("events", []):
                self.event(ev, op, removed_this_op)
            if "dir" in rec:
                self.observe(rec, op)
                if cmd == "OPEN":
                    self.note_restart_day(rec)
                flushed = rec.get("flushed", 0) == 1 or cmd in ("CLOSE", "END", "FLUSH")
                self.check_conservation(op, flushed)
                if cmd in ("WRITE", "OPEN", "CLOSE", "END"):
                    self.check_retention(op, flushed, removed_this_op, rotated_before)
                    self.check_sizes(op)
                    self.check_days(op)
        return self.v

    def event(self, ev, op, removed_this_op):
        k = ev["k"]
        a = os.path.basename(ev["a"])
        if ev["err"] != 0:
            return
        if k == "rename":
            b = os.path.basename(ev["b"])
            if a == self.h.fname:
                self.rot_since_reconf = True
            if a == self.h.fname and self.rx.match(b):
                self.stats["rotations"] += 1
                if self.curN == 1:
                    self.add("C06", "C06:rotated-with-N=1", "rotation to %s although the file-count limit is 1" % b, op)
                ent = {"name": b, "orig": b, "created": op, "content": None, "removed": None, "cause": None, "gz": False}
                prior = self.names_ever.get(b, [])
                if prior or (b + ".gz") in self.live or b in self.live:
                    prev_removed = [p for p in prior if p["removed"] is not None]
                    why = "retention-removed-earlier" if prev_removed and prev_removed[-1]["cause"] == "retention" else "other"
                    self.add("C09", "C09:name-reused:" + why, "rotated name %s used again (earlier holder created at %s, removed at %s)"
                             % (b, prior[-1]["created"] if prior else "?", prior[-1]["removed"] if prior else "still present"), op)
                for pe in prior:
                    # an earlier holder of this name that is still there is replaced by the rename: what it held is gone
                    if pe["removed"] is None and pe["name"] == b:
                        pe["removed"] = op
                        pe["cause"] = "overwritten"
                self.names_ever.setdefault(b, []).append(ent)
                self.entries.append(ent)
                self.by_name[b] = ent
                m = self.rx.match(b)
                self.stats["max_index"] = max(self.stats["max_index"], int(m.group(2)))
                if "snaptarget" in ev:
                    self.add("C09", "C09:overwrite", "rename onto existing %s (held %d bytes)" % (b, len(ev["snaptarget"]) // 2), op)
                    self.lost.append((b, bytes.fromhex(ev["snaptarget"]), op, "overwritten"))
            elif a in self.by_name or self.rx.match(a):
                # a rotated file renamed elsewhere: treat as removal + unknown
                self.add("C05", "C05:rotated-file-renamed", "%s renamed to %s" % (a, b), op)
            if b == self.h.fname and "snaptarget" in ev:
                self.lost.append((b, bytes.fromhex(ev["snaptarget"]), op, "active-overwritten"))
        elif k == "link":
            b = os.path.basename(ev["b"])
            if a == self.h.fname and self.rx.match(b):
                # QFile::rename fallback: link + unlink
                self.event({"k": "rename", "a": ev["a"], "b": ev["b"], "err": 0}, op, removed_this_op)
                self._linked_active = True
        elif k == "unlink":
            snap = bytes.fromhex(ev["snap"]) if "snap" in ev else None
            if a == self.h.fname and getattr(self, "_linked_active", False):
                self._linked_active = False
                return
            if a in self.by_name:
                ent = self.by_name[a]
                if "snapgz" in ev and not a.endswith(".gz") and (self.h.options & OPT_COMPRESS):
                    # compression replacing the original: the .gz must already be complete and equal
                    gz = bytes.fromhex(ev["snapgz"])
                    payload = self.decode(a + ".gz", gz, op, report=False)
                    if payload is None or payload != snap:
                        why = "invalid" if payload is None else "different content"
                        self.add("C08", "C08:original-removed-before-gz-complete",
                                 "%s removed while %s.gz is %s (%d bytes on disk)" % (a, a, why, len(gz)), op)
                        ent["content"] = snap
                        ent["removed"] = op
                        ent["cause"] = "compress-failed"
                        del self.by_name[a]
                    else:
                        self.stats["compressions"] += 1
                        ent["content"] = snap
                        ent["name"] = a + ".gz"
                        ent["gz"] = True
                        del self.by_name[a]
                        self.by_name[a + ".gz"] = ent
                elif (self.h.options & OPT_COMPRESS) and not a.endswith(".gz") and ent["created"] == op:
                    # the file rotated in this very operation is unlinked although no complete compressed copy sits next to it (the newest
                    # rotated file is never retention's victim): the compression step threw the original away
                    self.add("C08", "C08:original-removed-before-gz-complete", "%s removed while no %s.gz exists" % (a, a), op)
                    ent["content"] = snap
                    ent["removed"] = op
                    ent["cause"] = "compress-failed"
                    del self.by_name[a]
                else:
                    content = self.decode(a, snap, op) if snap is not None else None
                    ent["content"] = content if content is not None else ent["content"]
                    ent["removed"] = op
                    ent["cause"] = "retention"
                    del self.by_name[a]
                    removed_this_op.append(ent)
                    self.stats["retention_removals"] += 1
            elif a == self.h.fname:
                if snap:
                    self.lost.append((a, snap, op, "active-unlinked"))
            elif a in self.foreign:
                self.add("C06", "C06:foreign-file-deleted", "foreign file %s was deleted" % a, op)
        elif k == "open":
            if (ev["n"] & O_TRUNC) and "snap" in ev and len(ev["snap"]) > 0:
                if a == self.h.fname or a in self.by_name:
                    self.lost.append((a, bytes.fromhex(ev["snap"]), op, "truncated"))
                    if a in self.by_name and self.by_name[a]["created"] != op:
                        # a rotated file of an earlier rotation is opened for overwriting (the compressed copy of a later rotation that
                        # was given the same name): its records no longer exist anywhere
                        pe = self.by_name.pop(a)
                        pe["removed"] = op
                        pe["cause"] = "overwritten"
                elif a in self.foreign:
                    self.add("C06", "C06:foreign-file-truncated", "foreign file %s truncated" % a, op)

    def observe(self, rec, op):
        self.stats["observations"] += 1
        newlive = {}
        for e in rec["dir"]:
            nm = e["name"]
            if e.get("dir"):
                newlive[nm] = {"bytes": None, "mtime": e["mtime"], "dir": True}
                continue
            if e.get("same"):
                newlive[nm] = self.live[nm]
            else:
                newlive[nm] = {"bytes": bytes.fromhex(e["hex"]), "mtime": e["mtime"], "dir": False}
        self.live = newlive
        # register foreign objects created by the script
        if rec["cmd"] in ("FOREIGN", "MKDIR"):
            nm = rec["name"]
            self.foreign[nm] = (self.live[nm]["bytes"], self.live[nm]["mtime"], self.live[nm]["dir"])
        for nm, (b, mt, isdir) in self.foreign.items():
            cur = self.live.get(nm)
            if cur is None:
                self.add("C06", "C06:foreign-file-gone", "foreign %s disappeared" % nm, op)
            elif cur["bytes"] != b or cur["mtime"] != mt or cur["dir"] != isdir:
                self.add("C06", "C06:foreign-file-touched", "foreign %s changed (bytes or mtime)" % nm, op)
        rotated_live = 0
        mtimes = []
        for nm, cur in self.live.items():
            if cur["dir"] or nm == self.h.fname or nm in self.foreign:
                continue
            if self.rx.match(nm):
                rotated_live += 1
                mtimes.append(cur["mtime"])
                ent = self.by_name.get(nm)
                if ent is None:
                    self.add("C05", "C05:unknown-rotated-file", "%s exists but no rotation created it" % nm, op)
                    continue
                content = self.decode(nm, cur["bytes"], op)
                if content is None:
                    continue
                if ent["content"] is None:
                    ent["content"] = content
                elif ent["content"] != content:
                    self.add("C05", "C05:rotated-file-mutated", "content of %s changed after rotation (%d -> %d bytes)"
                             % (nm, len(ent["content"]), len(content)), op)
                    ent["content"] = content
            else:
                self.stats["unexpected_files"] = self.stats.get("unexpected_files", 0) + 1
        for nm, ent in list(self.by_name.items()):
            if nm not in self.live:
                # disappeared without an unlink event we attributed
                self.add("C05", "C05:rotated-file-vanished", "%s vanished without an unlink" % nm, op)
                ent["removed"] = op
                ent["cause"] = "vanished"
                del self.by_name[nm]
        self.stats["max_rotated"] = max(self.stats["max_rotated"], rotated_live)
        if len(mtimes) != len(set(mtimes)):
            self.stats["mtime_ties"] += 1

    def note_restart_day(self, rec):
        """Defect model for the open C09 finding: on (re)start the sink takes the active file's day from its
        modification time.  If the file's last bytes reached the disk on a later day than its last record's
        day (buffered tail flushed late, delayed delivery), the records it holds are 'adopted' under a wrong day."""
        act = self.live.get(self.h.fname)
        if act is None or act["dir"] or not act["bytes"]:
            return
        ids, _, err = self.parse(act["bytes"])
        if err or not ids:
            return
        mday = day_of(act["mtime"] / 1e6)
        if mday != day_of(self.msg_ms[ids[-1]]):
            self.adopted_ids.update(ids)
            self.stats["restarts_adopting_late_mtime"] = self.stats.get("restarts_adopting_late_mtime", 0) + 1

    # -- C05
    def check_conservation(self, op, flushed):
        seq = []
        for ent in self.entries:
            if ent["content"] is None:
                continue
            if ent["cause"] == "overwritten":
                continue        # not removed by retention: replaced by a later file of the same name - its records are in no file
            ids, partial, err = self.parse(ent["content"])
            if err or partial:
                self.add("C05", "C05:framing-rotated", "rotated %s: %s" % (ent["orig"], err or "ends inside a record"), op)
            seq.extend(ids)
        act = self.live.get(self.h.fname)
        if act is not None and not act["dir"]:
            ids, partial, err = self.parse(act["bytes"])
            if err:
                self.add("C05", "C05:framing-active", "active file: %s" % err, op)
            if partial and flushed:
                self.add("C05", "C05:framing-active", "active file ends inside a record although flushed", op)
            seq.extend(ids)
        want = self.written
        if (flushed and seq == want) or (not flushed and seq == want[:len(seq)]):
            return
        sset = set(seq)
        if len(sset) != len(seq):
            dup = sorted({x for x in seq if seq.count(x) > 1})[:5]
            self.add("C05", "C05:duplicated", "records %s appear more than once" % dup, op)
            return
        pos = {x: i for i, x in enumerate(want)}
        upto = len(want) if flushed else (max(pos.get(x, -1) for x in seq) + 1 if seq else 0)
        missing = [x for x in want[:upto] if x not in sset]
        if missing:
            cause = "unknown"
            for nm, data, lop, c in self.lost:
                if nm.endswith(".gz"):
                    data = self.decode(nm, data, op, report=False) or b""
                if set(self.parse(data)[0]) & set(missing):
                    cause = c
                    break
            self.add("C05", "C05:lost:" + cause, "records %s (of %d written) are in no file; concatenation yields %d records"
                     % (missing[:8], len(want), len(seq)), op)
            return
        bad = next((i for i in range(1, len(seq)) if pos.get(seq[i], -1) < pos.get(seq[i - 1], -1)), None)
        if bad is not None:
            self.add("C05", "C05:reordered", "concatenation in rotation order is not in write order: ...%s..."
                     % seq[max(0, bad - 2):bad + 3], op)
            return
        self.add("C05", "C05:mismatch", "concatenation %s... differs from written %s..." % (seq[:10], want[:10]), op)

    # -- C06
    def check_retention(self, op, flushed, removed_this_op, rotated_before):
        N = self.curN
        live_rot = [nm for nm, cur in self.live.items() if not cur["dir"] and nm not in self.foreign
                    and nm != self.h.fname and self.rx.match(nm)]
        has_active = self.h.fname in self.live
        # after a restart with a lower limit the surplus of the earlier configuration may stay until the first rotation
        if N >= 2 and self.rot_since_reconf and len(live_rot) + (1 if has_active else 0) > N:
            self.add("C06", "C06:too-many-files", "%d log files exist (limit %d): %s" % (len(live_rot) + 1, N, sorted(live_rot)), op)
        if N <= 0 and removed_this_op:
            self.add("C06", "C06:deleted-with-N<=0", "rotated files %s deleted although the limit is %d"
                     % ([e["orig"] for e in removed_this_op], N), op)
        if N == 1 and live_rot:
            self.add("C06", "C06:rotated-with-N=1", "rotated files exist with limit 1: %s" % live_rot, op)
        if N >= 2:
            # survivors must be the newest entries: every removed entry is older than every live one
            live_idx = [i for i, e in enumerate(self.entries) if e["removed"] is None]
            for e in removed_this_op:
                i = self.entries.index(e)
                newer_removed = [j for j in live_idx if j < i]
                if newer_removed:
                    # what makes it specific: tie class + index crossing
                    older = self.entries[newer_removed[0]]
                    m1, m2 = self.rx.match(e["orig"]), self.rx.match(older["orig"])
                    cross = ""
                    if m1 and m2 and m1.group(1) == m2.group(1) and len(m1.group(2)) != len(m2.group(2)):
                        cross = ":index-digits=%d-vs-%d" % (len(m2.group(2)), len(m1.group(2)))
                    self.add("C06", "C06:removed-newer-kept-older" + cross,
                             "removed %s (rotation #%d) while older %s (rotation #%d) survives"
                             % (e["orig"], i + 1, older["orig"], newer_removed[0] + 1), op)
            # premature removal: more removed than needed
            if removed_this_op and len(live_rot) < N - 1:
                self.add("C06", "C06:removed-too-many", "after removal only %d rotated files remain (limit allows %d)"
                         % (len(live_rot), N - 1), op)

    # -- C07
    def check_sizes(self, op):
        L = self.h.L
        if L <= 0 or self.h.N == 1:
            return
        files = []
        for ent in self.entries:
            if ent["content"] is not None:
                files.append((ent["orig"], ent["content"]))
        act = self.live.get(self.h.fname)
        if act is not None and not act["dir"]:
            files.append((self.h.fname, act["bytes"]))
        for nm, data in files:
            if len(data) <= L:
                continue
            ids, partial, err = self.parse(data)
            if err is None and len(ids) + (1 if partial else 0) == 1:
                continue
            key = "C07:file-exceeds-limit"
            if (nm, len(data)) in self._reported_days:
                continue
            self._reported_days.add((nm, len(data)))
            self.add("C07", key, "%s is %d bytes (> limit %d) and holds %d records" % (nm, len(data), L, len(ids)), op)

    # -- C09
    def check_days(self, op):
        if not self.daily or self.h.N == 1:
            return
        files = []
        for ent in self.entries:
            if ent["content"] is not None:
                files.append((ent["orig"], ent["content"], ent))
        act = self.live.get(self.h.fname)
        if act is not None and not act["dir"]:
            files.append((self.h.fname, act["bytes"], None))
        for nm, data, ent in files:
            ids, _, err = self.parse(data)
            if not ids:
                continue
            days = []
            for rid in ids:
                d = day_of(self.msg_ms[rid])
                if d not in days:
                    days.append(d)
            if len(days) > 1:
                k = (nm, tuple(days))
                if k not in self._reported_days:
                    self._reported_days.add(k)
                    sfx = ":restart-adopts-late-mtime" if self.adopted_ids & set(ids) else ""
                    self.add("C09", "C09:mixed-days" + sfx, "%s holds records of days %s (ids %s)" % (nm, days, ids[:6]), op)
            elif ent is not None:
                nd = ascii_digits(self.rx.match(nm).group(1))
                k = (nm, "date")
                if nd != days[0] and k not in self._reported_days:
                    self._reported_days.add(k)
                    sfx = ":restart-adopts-late-mtime" if self.adopted_ids & set(ids) else ""
                    self.add("C09", "C09:name-date-mismatch" + sfx, "%s carries date %s but its records are of %s" % (nm, nd, days), op)
        # indices strictly increasing per date in creation order
        last = {}
        for ent in self.entries:
            m = self.rx.match(ent["orig"])
            d, i = ascii_digits(m.group(1)), int(m.group(2))
            if d in last and i <= last[d]:
                k = (ent["orig"], "index")
                if k not in self._reported_days:
                    self._reported_days.add(k)
                    self.add("C09", "C09:index-not-increasing", "%s created after index %d of the same date" % (ent["orig"], last[d]), op)
            last[d] = max(i, last.get(d, 0))

    _reported_days = None


def analyze(h, recs):
    _TZ_OFFSET[0] = TZ_CHOICES.get(getattr(h, "tz", "UTC"), 0)
    a = Analysis(h, recs)
    a._reported_days = set()
    a.run()
    return a
