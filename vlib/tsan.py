"""ThreadSanitizer report triage (DESIGN §3.3).

A report is a *violation* only if the racing accesses were performed by instrumented code of the
driver executable and at least one of their stacks has a frame inside src/qtlogger/ (or the
amalgamated qtlogger.h); reports whose access sits in an uninstrumented module are counted as
environment noise; reports with harness frames only are harness bugs."""
import glob
import os
import re

FRAME = re.compile(r"^\s+#(\d+) (.+?) (\S+?)(?::(\d+))?(?::\d+)? \(([^+)]+)\+0x[0-9a-f]+\)")
FRAME_NOSRC = re.compile(r"^\s+#(\d+) (.+?) \(([^+)]+)\+0x[0-9a-f]+\)")


def options(log_prefix, extra=""):
    return ("halt_on_error=0:ignore_noninstrumented_modules=1:second_deadlock_stack=1:report_thread_leaks=0:"
            "report_signal_unsafe=0:history_size=4:exitcode=0:log_path=%s%s" % (log_prefix, (":" + extra) if extra else ""))


def parse_reports(text):
    """-> list of dicts {kind, stacks: [[(func, file, module)]], raw}"""
    reports = []
    blocks = text.split("==================")
    for b in blocks:
        m = re.search(r"WARNING: ThreadSanitizer: ([^\n(]+)", b)
        if not m:
            continue
        kind = m.group(1).strip()
        stacks = []
        cur = None
        titles = []
        for line in b.splitlines():
            if re.match(r"^  \S", line) and not line.strip().startswith("#"):
                cur = []
                stacks.append(cur)
                titles.append(line.strip())
                continue
            fm = FRAME.match(line)
            if fm and cur is not None:
                cur.append((fm.group(2), fm.group(3), os.path.basename(fm.group(5))))
                continue
            fm = FRAME_NOSRC.match(line)
            if fm and cur is not None:
                cur.append((fm.group(2), "", os.path.basename(fm.group(3))))
        reports.append({"kind": kind, "stacks": stacks, "titles": titles, "raw": b.strip()[:6000]})
    return reports


def _is_lib(frame):
    f = frame[1]
    return "/src/qtlogger/" in f or f.endswith("/qtlogger.h") or "qtlogger/" in f and "drivers/" not in f


def _is_runtime(frame):
    fn, f, mod = frame
    return mod.startswith("libtsan") or "sanitizer_common" in f or "tsan_interceptors" in f or "libsanitizer" in f


def triage(report, exe_name):
    """-> ('violation'|'env_noise'|'harness', key)"""
    access = []
    for title, st in zip(report["titles"], report["stacks"]):
        t = title.lower()
        if any(w in t for w in ("write of size", "read of size", "previous write", "previous read", "atomic write", "atomic read",
                                "previous atomic", "mutex m", "acquired here", "lock-order", "by thread", "by main thread")):
            if "created" in t and "thread t" in t:
                continue
            if "location is" in t or "allocated by" in t or t.startswith("mutex ") and "created at" in t:
                continue
            access.append(st)
    if not access:
        access = report["stacks"][:2]
    tops = []
    libframes = []
    for st in access[:2]:
        user = [fr for fr in st if not _is_runtime(fr)]
        tops.append(user[0] if user else None)
        lf = [fr for fr in user if _is_lib(fr)]
        libframes.append(lf[0][0] if lf else None)
    in_exe = all(t is not None and t[2].startswith(exe_name) for t in tops)
    has_lib = any(libframes)
    names = sorted(re.sub(r"\(.*", "", n or "-") for n in libframes)
    key = "tsan:%s:%s" % (report["kind"].replace(" ", "-"), "|".join(names))
    if not in_exe:
        return "env_noise", key
    if has_lib:
        return "violation", key
    return "harness", key


def collect(log_prefix, exe_name):
    """read all log files with the prefix -> (violations{key: raw}, env_noise_count, harness{key: raw}, total)"""
    viol, harness = {}, {}
    noise = total = 0
    for f in glob.glob(log_prefix + "*"):
        try:
            text = open(f, errors="replace").read()
        except OSError:
            continue
        for r in parse_reports(text):
            total += 1
            cls, key = triage(r, exe_name)
            if cls == "violation":
                viol.setdefault(key, r["raw"])
            elif cls == "harness":
                harness.setdefault(key, r["raw"])
            else:
                noise += 1
    return viol, noise, harness, total
