"""Offline checkers over histories recorded by drv_conc (C02 synchronous concurrency, C03 asynchronous hand-off)."""
import hashlib

RANK = {0: 0, 4: 1, 1: 2, 2: 3, 3: 4}   # QtMsgType value -> severity rank (debug < info < warning < critical < fatal)
TYPE_NAME = {0: "debug", 4: "info", 1: "warning", 2: "critical", 3: "fatal"}


def parse(path):
    recs = []
    complete = False
    hooks = ""
    with open(path) as f:
        for ln in f:
            if ln.startswith("END"):
                complete = True
                continue
            if ln.startswith("#"):
                hooks = ln[2:].strip()
                continue
            p = ln.rstrip("\n").split(" ", 5)
            if len(p) < 5:
                continue
            recs.append((p[0], int(p[1]), int(p[2]), int(p[3]), int(p[4]), p[5] if len(p) > 5 else ""))
    return recs, complete, hooks


def unhex(h):
    if h in ("-", "", "~"):
        return ""
    return bytes.fromhex(h).decode("utf-8", "replace")


# ------------------------------------------------------------------------------------------- C02

def check_c02(recs):
    """-> (violations [(key, what)], stats)"""
    v = []
    sent = {}       # id -> (type, noisy, text)
    for k, a, b, c, d, s in recs:
        if k == "C":
            sent[a] = (c, d, unhex(s))
    n = len(sent)
    E, X, B, A, S = {}, {}, {}, [], []
    inside = [(i, r) for i, r in enumerate(recs) if r[0] in "EBASX"]
    # (a) mutual exclusion: the in-flight probe and the grouping of pipeline records by message
    overlap = sum(1 for _, r in inside if r[0] == "E" and r[3] != 0)
    if overlap:
        first = next(r for _, r in inside if r[0] == "E" and r[3] != 0)
        v.append(("C02:overlap", "%d messages entered the pipeline while another thread was inside it (e.g. id %d saw %d in flight)"
                  % (overlap, first[1], first[3])))
    cur = None
    broken = 0
    for _, r in inside:
        if r[0] == "E":
            if cur is not None:
                broken += 1
            cur = r[1]
        elif r[1] != cur:
            broken += 1
        if r[0] == "X":
            cur = None
    if broken and not overlap:
        v.append(("C02:interleaved-handlers", "%d pipeline records of one message are interleaved with another message's" % broken))
    for _, r in inside:
        k, a, b, c, d, s = r
        if k == "E":
            if a in E:
                v.append(("C02:processed-twice", "message %d entered the pipeline twice" % a))
            E[a] = b
        elif k == "X":
            X[a] = b
        elif k == "B":
            B[a] = (b, unhex(s))
        elif k == "A":
            A.append((a, b, c, unhex(s)))
        elif k == "S":
            S.append((a, b, c, unhex(s)))
    # (b) exactly once
    for name, lst, want in (("S", S, set(sent)),):
        got = [x[0] for x in lst]
        if len(got) != len(set(got)):
            v.append(("C02:delivered-twice:sink=%s" % name, "duplicate deliveries at sink %s" % name))
        missing = want - set(got)
        extra = set(got) - want
        if missing:
            v.append(("C02:lost:sink=%s" % name, "%d of %d messages never reached sink %s (e.g. %d)" % (len(missing), len(want), name, min(missing))))
        if extra:
            v.append(("C02:spurious:sink=%s" % name, "%d deliveries of unknown messages at sink %s" % (len(extra), name)))
    if set(E) != set(sent):
        v.append(("C02:lost:entry", "%d sent, %d entered the pipeline" % (len(sent), len(E))))
    # level / category stage
    want_b = {i for i, (t, noisy, _) in sent.items() if RANK[t] >= RANK[4] and not noisy}
    if set(B) != want_b:
        v.append(("C02:filter-stage", "level/category filters let %d through, expected %d (missing %d, extra %d)"
                  % (len(B), len(want_b), len(want_b - set(B)), len(set(B) - want_b))))
    # duplicate filter = run-collapse along the observed serial order
    last = ""
    want_a = []
    for i, (L, text) in sorted(B.items(), key=lambda kv: kv[1][0]):
        if text != last:
            want_a.append(i)
            last = text
    got_a = [x[0] for x in A]
    if sorted(got_a) != sorted(want_a):
        v.append(("C02:duplicate-filter-state", "duplicate filter passed %d messages, run-collapse of the observed serial order predicts %d"
                  % (len(got_a), len(want_a))))
    # (c) per-producer order at both sinks (log order = real order of the sink calls)
    for name, lst in (("A", A), ("S", S)):
        lastp = {}
        for x in lst:
            p, i = divmod(x[0], 1000000)
            if p in lastp and lastp[p] > i:
                v.append(("C02:producer-order:sink=%s" % name, "producer %d: message %d delivered after %d" % (p, i, lastp[p])))
                break
            lastp[p] = i
    # (d) sequence numbers consecutive in delivery order
    prevL = -1
    for a, L, seq, text in S:
        if seq != L:
            v.append(("C02:seq-number", "message %d is number %d in the serial order but carries seq_number %d" % (a, L, seq)))
            break
        if L < prevL:
            v.append(("C02:serial-order", "sink S saw serial position %d after %d" % (L, prevL)))
            break
        prevL = L
    seqs = sorted(x[2] for x in S)
    if seqs != list(range(len(seqs))) and not any(k[0] == "C02:seq-number" for k in v):
        v.append(("C02:seq-number", "sequence numbers at sink S are not 0..n-1 (gap or repeat)"))
    for a, L, seq, text in A:
        t = sent.get(a, (0, 0, ""))
        want = "%d|%s|%s" % (L, TYPE_NAME[t[0]], t[2])
        if text != want:
            v.append(("C02:formatted-text", "sink A got %r for message %d, expected %r" % (text[:80], a, want)))
            break
    # schedule statistics
    order = [p for p, _ in (divmod(i, 1000000) for i, _ in sorted(E.items(), key=lambda kv: kv[1]))]
    switches = sum(1 for x, y in zip(order, order[1:]) if x != y)
    handovers = {(x, y) for x, y in zip(order, order[1:]) if x != y}
    runs = []
    run = 1
    for x, y in zip(order, order[1:]):
        if x == y:
            run += 1
        else:
            runs.append(run)
            run = 1
    runs.append(run)
    stats = {"messages": n, "switches": switches, "handovers": len(handovers),
             "fingerprint": hashlib.sha1(bytes(x % 251 for x in order)).hexdigest()[:12],
             "max_run": max(runs) if runs else 0, "passed_dup": len(got_a), "reached_dup": len(B)}
    return v, stats


def check_c02b(recs):
    """two independently locked pipelines used at the same time: each sink gets exactly its producers' messages, once, in each
    producer's order, with the message text inside the formatted line"""
    v = []
    sent = {}
    for k, a, b, c, d, s in recs:
        if k == "C":
            sent[a] = c          # 0 = through the installed Logger (sink S), 1 = through the bare pipeline (sink U)
    got = {"S": [], "U": []}
    for k, a, b, c, d, s in recs:
        if k in got:
            got[k].append((a, unhex(s)))
    for tag, side in (("S", 0), ("U", 1)):
        want = {i for i, t in sent.items() if t == side}
        ids = [a for a, _ in got[tag]]
        if len(ids) != len(set(ids)):
            v.append(("C02:two-pipelines:delivered-twice:sink=%s" % tag, "duplicate deliveries"))
        if set(ids) != want:
            v.append(("C02:two-pipelines:lost-or-misrouted:sink=%s" % tag, "%d expected, %d delivered (missing %d, foreign %d)"
                      % (len(want), len(set(ids)), len(want - set(ids)), len(set(ids) - want))))
        lastp = {}
        for a, text in got[tag]:
            p, i = divmod(a, 1000000)
            if p in lastp and lastp[p] > i:
                v.append(("C02:two-pipelines:producer-order:sink=%s" % tag, "producer %d: message %d after %d" % (p, i, lastp[p])))
                break
            lastp[p] = i
            if ("msg %d" % a) not in text:
                v.append(("C02:two-pipelines:formatted-text:sink=%s" % tag, "line %r does not carry message %d" % (text[:100], a)))
                break
    order = [divmod(a, 1000000)[0] for k, a, b, c, d, s in recs if k in ("S", "U")]
    switches = sum(1 for x, y in zip(order, order[1:]) if x != y)
    return v, {"messages": len(sent), "switches": switches, "handovers": len({(x, y) for x, y in zip(order, order[1:]) if x != y}),
               "fingerprint": hashlib.sha1(bytes(x % 251 for x in order)).hexdigest()[:12], "max_run": 0}


# ------------------------------------------------------------------------------------------- C03

FIELDS = ["type", "message", "file", "line", "function", "category", "time", "steadyTime", "threadId", "qthreadptr", "formatted",
          "attributes"]


def _eq_field(name, a, b):
    if name in ("file", "function", "category"):
        # the copy re-homes the strings: a null pointer and an empty string are the same source location
        return (a if a not in ("~", "-") else "") == (b if b not in ("~", "-") else "")
    return a == b


def check_c03(recs, target):
    v = []
    T, P, D, H = {}, {}, [], []
    foreign = 0
    tJ = tZ = None
    for k, a, b, c, d, s in recs:
        if k == "T":
            if a not in T:          # with two own-thread stages the first hand-off carries the message as the producer built it
                T[a] = (b, s.split(" "))
        elif k == "P":
            P[a] = (b, c, d, s.split(" "))
        elif k == "D":
            if a < 0:
                foreign += 1      # not sent by the harness (Qt's own warnings also travel through the installed handler)
                continue
            D.append((a, b, c, d, s.split(" ")))
        elif k == "H":
            if a >= 0:
                H.append((a, b, c))
        elif k == "J":
            tJ = a
        elif k == "Z":
            tZ = a
    ids = set(P)
    got = [x[0] for x in D]
    if len(got) != len(set(got)):
        v.append(("C03:delivered-twice", "a message reached the sink more than once"))
    if set(got) != ids:
        v.append(("C03:lost", "%d sent, %d delivered by the time the stop returned" % (len(ids), len(set(got)))))
    # (a) content: against the twin captured at the hand-off, and against what the producer knows
    twin_used = 0
    for a, t, own, waited, snap in D:
        if a in T:
            twin_used += 1
            tw = T[a][1]
            for name, x, y in zip(FIELDS, tw, snap):
                if not _eq_field(name, x, y):
                    v.append(("C03:content:%s" % name, "message %d: %s at the hand-off %r, at the sink %r" % (a, name, x[:60], y[:60])))
                    break
        if a in P:
            tc, tr, tid, known = P[a]
            ptype, ptext, pfile, pline, pfunc, pcat, before, after = known
            pairs = [("type", ptype, snap[0]), ("message", ptext, snap[1]), ("file", pfile, snap[2]), ("line", pline, snap[3]),
                     ("function", pfunc, snap[4])]
            if target == "logger" and pcat == "~":
                pairs.append(("category", "default".encode().hex(), snap[5]))
            else:
                pairs.append(("category", pcat, snap[5]))
            for name, x, y in pairs:
                if not _eq_field(name, x, y):
                    v.append(("C03:content:%s" % name, "message %d: producer sent %s=%r, the sink saw %r" % (a, name, x[:60], y[:60])))
                    break
            if not (int(before) <= int(snap[6]) <= int(after)):
                v.append(("C03:content:time", "message %d: timestamp %s outside the log call's window [%s, %s]" % (a, snap[6], before, after)))
            if int(snap[8]) != tid:
                v.append(("C03:content:threadId", "message %d: originating thread id %s, the sink saw %s" % (a, tid, snap[8])))
        if own != 1:
            v.append(("C03:sink-not-on-logger-thread", "message %d was delivered on a thread that is not the logger's own thread" % a))
        if waited == -1:
            v.append(("C03:call-blocks-on-sink", "the log call of message %d had not returned 20 s after its sink was entered" % a))
    for a, t, own in H:
        if own != 1:
            v.append(("C03:handler-not-on-logger-thread", "a handler ran for message %d on a thread that is not the logger's own thread" % a))
            break
    # (b) FIFO per producer, (c) real-time order
    Ds = sorted(D, key=lambda x: x[1])
    lastp = {}
    maxcall = -1
    maxcall_id = None
    constrained = 0
    for a, t, own, waited, snap in Ds:
        p, i = divmod(a, 1000000)
        if p in lastp and lastp[p] > i:
            v.append(("C03:fifo", "producer %d: message %d delivered after %d" % (p, i, lastp[p])))
            break
        lastp[p] = i
        if a in P:
            tc, tr = P[a][0], P[a][1]
            if maxcall > tr:
                v.append(("C03:real-time-order", "message %d (call returned at %d) was delivered after message %s whose call began at %d"
                          % (a, tr, maxcall_id, maxcall)))
                break
            if tc > maxcall:
                maxcall, maxcall_id = tc, a
    # how many cross-producer pairs are really ordered in real time (only those constrain (c))
    rets = sorted((P[a][1], a) for a in P)
    calls = sorted((P[a][0], a) for a in P)
    j = 0
    for tc, a in calls:
        while j < len(rets) and rets[j][0] < tc:
            j += 1
        constrained += j
    # backlog: posted-minus-delivered over the ticket clock
    events = sorted([(T[a][0], 1) for a in T] + [(x[1], -1) for x in D])
    backlog = mx = 0
    for _, dlt in events:
        backlog += dlt
        mx = max(mx, backlog)
    order = [divmod(x[0], 1000000)[0] for x in Ds]
    switches = sum(1 for x, y in zip(order, order[1:]) if x != y)
    stats = {"messages": len(ids), "delivered": len(D), "twin_compared": twin_used, "max_backlog": mx, "switches": switches,
             "ordered_pairs": constrained, "gated": sum(1 for a in got if a % 13 == 0), "foreign_messages": foreign,
             "fingerprint": hashlib.sha1(bytes(x % 251 for x in order)).hexdigest()[:12]}
    return v, stats
