"""Flavour builds of the repository under test + the drivers.

Every check calls ensure(flavour) first.  The build tree is /verif/build/<flavour>[-<hash of
repo path>]; it is driven by drivers/CMakeLists.txt which add_subdirectory()s the repo's own
src/qtlogger/CMakeLists.txt, so ninja rebuilds precisely what changed in the working tree.
"""
import fcntl
import hashlib
import os
import subprocess
import sys

VERIF = os.path.dirname(os.path.dirname(os.path.abspath(__file__)))
GUARD = "-DQTLOGGER_VERIF"

FLAVOURS = {
    "san": dict(cxx="g++", flags="-O1 -g -fno-omit-frame-pointer -fsanitize=address,undefined "
                "-fno-sanitize-recover=all -D_GLIBCXX_ASSERTIONS -D_GLIBCXX_DEBUG " + GUARD,
                ld="-fsanitize=address,undefined"),
    "tsan": dict(cxx="g++", flags="-O1 -g -fno-omit-frame-pointer -fsanitize=thread " + GUARD,
                 ld="-fsanitize=thread"),
    "plain": dict(cxx="g++", flags="-O2 -g " + GUARD, ld=""),
    "hdr": dict(cxx="g++", flags="-O1 -g", ld=""),
}


def repo_path():
    return os.path.abspath(os.environ.get("VERIF_REPO", "/repo"))


def build_dir(flavour):
    repo = repo_path()
    suffix = "" if repo == "/repo" else "-" + hashlib.sha1(repo.encode()).hexdigest()[:10]
    return os.path.join(VERIF, "build", flavour + suffix)


class BuildError(Exception):
    pass


def ensure(flavour, targets=None, quiet=True):
    """Configure + build; returns the build directory. Serialised per build dir with a file lock
    so parallel checks do not trample each other."""
    f = FLAVOURS[flavour]
    bdir = build_dir(flavour)
    os.makedirs(bdir, exist_ok=True)
    lock = open(os.path.join(bdir, ".verif.lock"), "w")
    fcntl.flock(lock, fcntl.LOCK_EX)
    try:
        cfg = ["cmake", "-G", "Ninja", "-S", os.path.join(VERIF, "drivers"), "-B", bdir,
               # san: CMake "Debug" only to keep Qt's inline assertions (Q_ASSERT in QString::at() etc.) alive - Qt's imported targets
               # add QT_NO_DEBUG to every other configuration; optimisation and -g come from CMAKE_CXX_FLAGS either way
               "-DCMAKE_BUILD_TYPE=" + ("Debug" if flavour == "san" else "None"), "-DCMAKE_CXX_FLAGS_DEBUG=",
               "-DCMAKE_CXX_COMPILER=" + f["cxx"],
               "-DCMAKE_CXX_FLAGS=" + f["flags"],
               "-DCMAKE_EXE_LINKER_FLAGS=" + f["ld"],
               "-DVERIF_REPO=" + repo_path(),
               "-DVERIF_FLAVOUR=" + flavour]
        r = subprocess.run(cfg, stdout=subprocess.PIPE, stderr=subprocess.STDOUT, text=True)
        if r.returncode != 0:
            raise BuildError("cmake configure failed for %s:\n%s" % (flavour, r.stdout[-4000:]))
        cmd = ["cmake", "--build", bdir, "-j", str(os.cpu_count() or 4)]
        if targets:
            cmd += ["--target"] + list(targets)
        r = subprocess.run(cmd, stdout=subprocess.PIPE, stderr=subprocess.STDOUT, text=True)
        if r.returncode != 0:
            raise BuildError("build failed for %s:\n%s" % (flavour, r.stdout[-6000:]))
        if not quiet:
            sys.stderr.write(r.stdout[-2000:])
    finally:
        fcntl.flock(lock, fcntl.LOCK_UN)
        lock.close()
    return bdir


def driver(flavour, name):
    bdir = ensure(flavour, [name])
    path = os.path.join(bdir, name)
    if not os.path.exists(path):
        raise BuildError("driver %s missing in %s" % (name, bdir))
    return path


FUZZ_FLAGS = ("-std=gnu++17 -O1 -g -fno-omit-frame-pointer -fsanitize=fuzzer,address,undefined -fno-sanitize-recover=all "
              "-fno-sanitize=object-size -DQTLOGGER_STATIC -DQT_CORE_LIB -fPIC " + GUARD)   # no QT_NO_DEBUG: Qt's inline assertions stay on


def ensure_fuzz():
    """The one flavour not built through the repository's CMake (clang 14 cannot compile logger.cpp): the translation units C14 is
    anchored in (formatters/*.cpp, filters/*.cpp, globbed) + drivers/fuzz_targets.cpp.  Rebuilt when any source under src/qtlogger
    or the target file is newer than the binary.  Returns the path of the fuzz binary."""
    import glob
    from concurrent.futures import ThreadPoolExecutor
    repo = repo_path()
    bdir = build_dir("fuzz")
    os.makedirs(bdir, exist_ok=True)
    lock = open(os.path.join(bdir, ".verif.lock"), "w")
    fcntl.flock(lock, fcntl.LOCK_EX)
    try:
        exe = os.path.join(bdir, "fuzz_targets")
        srcs = sorted(glob.glob(os.path.join(repo, "src/qtlogger/formatters/*.cpp")) + glob.glob(os.path.join(repo, "src/qtlogger/filters/*.cpp")))
        srcs.append(os.path.join(VERIF, "drivers", "fuzz_targets.cpp"))
        deps = srcs + glob.glob(os.path.join(repo, "src/qtlogger/**/*.h"), recursive=True)
        newest = max(os.path.getmtime(f) for f in deps)
        if os.path.exists(exe) and os.path.getmtime(exe) >= newest:
            return exe
        inc = ["-I" + os.path.join(repo, "src"), "-I" + os.path.join(repo, "src", "qtlogger")]
        qt = subprocess.run(["pkg-config", "--cflags", "Qt5Core"], stdout=subprocess.PIPE, text=True).stdout.split()
        qtl = subprocess.run(["pkg-config", "--libs", "Qt5Core"], stdout=subprocess.PIPE, text=True).stdout.split()

        def cc(src):
            obj = os.path.join(bdir, os.path.basename(src) + ".o")
            r = subprocess.run(["clang++-14"] + FUZZ_FLAGS.split() + inc + qt + ["-c", src, "-o", obj], stdout=subprocess.PIPE,
                               stderr=subprocess.STDOUT, text=True)
            return obj, r.returncode, r.stdout
        with ThreadPoolExecutor(max_workers=8) as ex:
            res = list(ex.map(cc, srcs))
        for obj, rc, out in res:
            if rc != 0:
                raise BuildError("clang failed for %s:\n%s" % (obj, out[-4000:]))
        r = subprocess.run(["clang++-14", "-fsanitize=fuzzer,address,undefined"] + [o for o, _, _ in res] + ["-o", exe] + qtl,
                           stdout=subprocess.PIPE, stderr=subprocess.STDOUT, text=True)
        if r.returncode != 0:
            raise BuildError("fuzz link failed:\n%s" % r.stdout[-4000:])
        return exe
    finally:
        fcntl.flock(lock, fcntl.LOCK_UN)
        lock.close()


def ensure_fuzz_replay():
    """gcc build (no sanitizer) of the fuzz targets with a stand-alone main, for valgrind memcheck replays (C14 thorough)."""
    import glob
    from concurrent.futures import ThreadPoolExecutor
    repo = repo_path()
    bdir = build_dir("fuzzreplay")
    os.makedirs(bdir, exist_ok=True)
    exe = os.path.join(bdir, "fuzz_replay")
    srcs = sorted(glob.glob(os.path.join(repo, "src/qtlogger/formatters/*.cpp")) + glob.glob(os.path.join(repo, "src/qtlogger/filters/*.cpp")))
    srcs += [os.path.join(VERIF, "drivers", "fuzz_targets.cpp"), os.path.join(VERIF, "drivers", "fuzz_replay_main.cpp")]
    deps = srcs + glob.glob(os.path.join(repo, "src/qtlogger/**/*.h"), recursive=True)
    if os.path.exists(exe) and os.path.getmtime(exe) >= max(os.path.getmtime(f) for f in deps):
        return exe
    # only FuzzedDataProvider.h from clang's resource directory (gcc must not see clang's own stddef.h etc.)
    import glob as _g
    import shutil as _sh
    fdp = _g.glob("/usr/lib/llvm-14/lib/clang/*/include/fuzzer/FuzzedDataProvider.h")
    if not fdp:
        raise BuildError("FuzzedDataProvider.h not found")
    os.makedirs(os.path.join(bdir, "inc", "fuzzer"), exist_ok=True)
    _sh.copy(fdp[0], os.path.join(bdir, "inc", "fuzzer", "FuzzedDataProvider.h"))
    inc = ["-I" + os.path.join(repo, "src"), "-I" + os.path.join(repo, "src", "qtlogger"), "-I" + os.path.join(bdir, "inc")]
    qt = subprocess.run(["pkg-config", "--cflags", "Qt5Core"], stdout=subprocess.PIPE, text=True).stdout.split()
    qtl = subprocess.run(["pkg-config", "--libs", "Qt5Core"], stdout=subprocess.PIPE, text=True).stdout.split()

    def cc(src):
        obj = os.path.join(bdir, os.path.basename(src) + ".o")
        r = subprocess.run(["g++", "-std=gnu++17", "-O1", "-g", "-fPIC", "-DQTLOGGER_STATIC", "-DQT_CORE_LIB", GUARD] + inc + qt + ["-c", src, "-o", obj],
                           stdout=subprocess.PIPE, stderr=subprocess.STDOUT, text=True)
        return obj, r.returncode, r.stdout
    with ThreadPoolExecutor(max_workers=8) as ex:
        res = list(ex.map(cc, srcs))
    for obj, rc, out in res:
        if rc != 0:
            raise BuildError("g++ failed for %s:\n%s" % (obj, out[-3000:]))
    r = subprocess.run(["g++"] + [o for o, _, _ in res] + ["-o", exe] + qtl, stdout=subprocess.PIPE, stderr=subprocess.STDOUT, text=True)
    if r.returncode != 0:
        raise BuildError("fuzz_replay link failed:\n%s" % r.stdout[-3000:])
    return exe


if __name__ == "__main__":
    for fl in sys.argv[1:] or ["san", "tsan", "plain"]:
        print(fl, ensure_fuzz() if fl == "fuzz" else ensure(fl, quiet=False))
