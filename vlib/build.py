"""Flavour builds of the repository under test + the drivers.

Every check calls ensure(flavour) first.  The build tree is /verif/build/<flavour>[-<hash of
repo path>]; it is driven by drivers/CMakeLists.txt which add_subdirectory()s the repo's own
src/qtlogger/CMakeLists.txt, so ninja rebuilds precisely what changed in the working tree.
"""
import fcntl
import hashlib
import os
import subprocess
import sys

VERIF = os.path.dirname(os.path.dirname(os.path.abspath(__file__)))
GUARD = "-DQTLOGGER_VERIF"

FLAVOURS = {
    "san": dict(cxx="g++", flags="-O1 -g -fno-omit-frame-pointer -fsanitize=address,undefined "
                "-fno-sanitize-recover=all -D_GLIBCXX_ASSERTIONS -D_GLIBCXX_DEBUG " + GUARD,
                ld="-fsanitize=address,undefined"),
    "tsan": dict(cxx="g++", flags="-O1 -g -fno-omit-frame-pointer -fsanitize=thread " + GUARD,
                 ld="-fsanitize=thread"),
    "plain": dict(cxx="g++", flags="-O2 -g " + GUARD, ld=""),
    "hdr": dict(cxx="g++", flags="-O1 -g", ld=""),
}


def repo_path():
    return os.path.abspath(os.environ.get("VERIF_REPO", "/repo"))


def build_dir(flavour):
    repo = repo_path()
    suffix = "" if repo == "/repo" else "-" + hashlib.sha1(repo.encode()).hexdigest()[:10]
    return os.path.join(VERIF, "build", flavour + suffix)


class BuildError(Exception):
    pass


def ensure(flavour, targets=None, quiet=True):
    """Configure + build; returns the build directory. Serialised per build dir with a file lock
    so parallel checks do not trample each other."""
    f = FLAVOURS[flavour]
    bdir = build_dir(flavour)
    os.makedirs(bdir, exist_ok=True)
    lock = open(os.path.join(bdir, ".verif.lock"), "w")
    fcntl.flock(lock, fcntl.LOCK_EX)
    try:
        cfg = ["cmake", "-G", "Ninja", "-S", os.path.join(VERIF, "drivers"), "-B", bdir,
               "-DCMAKE_BUILD_TYPE=None",
               "-DCMAKE_CXX_COMPILER=" + f["cxx"],
               "-DCMAKE_CXX_FLAGS=" + f["flags"],
               "-DCMAKE_EXE_LINKER_FLAGS=" + f["ld"],
               "-DVERIF_REPO=" + repo_path(),
               "-DVERIF_FLAVOUR=" + flavour]
        r = subprocess.run(cfg, stdout=subprocess.PIPE, stderr=subprocess.STDOUT, text=True)
        if r.returncode != 0:
            raise BuildError("cmake configure failed for %s:\n%s" % (flavour, r.stdout[-4000:]))
        cmd = ["cmake", "--build", bdir, "-j", str(os.cpu_count() or 4)]
        if targets:
            cmd += ["--target"] + list(targets)
        r = subprocess.run(cmd, stdout=subprocess.PIPE, stderr=subprocess.STDOUT, text=True)
        if r.returncode != 0:
            raise BuildError("build failed for %s:\n%s" % (flavour, r.stdout[-6000:]))
        if not quiet:
            sys.stderr.write(r.stdout[-2000:])
    finally:
        fcntl.flock(lock, fcntl.LOCK_UN)
        lock.close()
    return bdir


def driver(flavour, name):
    bdir = ensure(flavour, [name])
    path = os.path.join(bdir, name)
    if not os.path.exists(path):
        raise BuildError("driver %s missing in %s" % (name, bdir))
    return path


if __name__ == "__main__":
    for fl in sys.argv[1:] or ["san", "tsan", "plain"]:
        print(fl, ensure(fl, quiet=False))
