#!/bin/sh
# Plumbing self-tests (DESIGN §9a): every instrument the checks rely on must behave as assumed; exit 2 otherwise.
cd "$(dirname "$0")"
fail() { echo "SELFCHECK FAILED: $1"; exit 2; }
T=$(mktemp -d)
trap 'rm -rf "$T"' EXIT
export QT_NO_GLIB=1
# 1. TSan + QMutex shim: silent on a mutex-protected counter, loud on an unprotected one
TSAN_OPTIONS="halt_on_error=0:exitcode=0:ignore_noninstrumented_modules=1:log_path=$T/p" build/tsan/selftest tsan-protected >/dev/null 2>&1 || fail "tsan-protected did not run"
ls "$T"/p.* >/dev/null 2>&1 && fail "TSan reports a race on a QMutex-protected counter (QMutex shim broken)"
TSAN_OPTIONS="halt_on_error=0:exitcode=0:ignore_noninstrumented_modules=1:log_path=$T/u" build/tsan/selftest tsan-unprotected >/dev/null 2>&1
grep -q "data race" "$T"/u.* 2>/dev/null || fail "TSan does not report a race on an unprotected counter"
# 2. ASan aborts on a heap overflow
ASAN_OPTIONS=abort_on_error=1:detect_leaks=0 build/san/selftest asan-overflow >/dev/null 2>"$T/asan"; rc=$?
[ $rc -ne 0 ] && grep -q "heap-buffer-overflow" "$T/asan" || fail "ASan did not catch a heap-buffer-overflow"
# 3. libstdc++ debug mode aborts on a reversed iterator range
build/san/selftest debug-range >/dev/null 2>"$T/dbg"; rc=$?
[ $rc -ne 0 ] && grep -q "valid iterator range" "$T/dbg" || fail "_GLIBCXX_DEBUG did not abort on a reversed range"
# 4. virtual clock + syscall shim: a scripted compressed rotation under the virtual clock names its file after the virtual date
mkdir -p "$T/rot/logs"
cat > "$T/rot/s" <<EOS
DIR $T/rot/logs
CLOCK 1500000000000
GRAN 1000000
AUTOOBS 1
OPEN $T/rot/logs/app.log 20 0 4
WRITE 0 520030003a00610061006100610061006100610061006100610061006100610061006100 0
WRITE 1 520031003a00620062006200620062006200620062006200620062006200620062006200 0
CLOSE
EOS
build/plain/drv_rot "$T/rot/s" "$T/rot/t" >/dev/null 2>&1 || fail "drv_rot failed"
ls "$T/rot/logs" | grep -q "app.2017-07-14.1.log.gz" || fail "virtual clock not honoured by the sink (expected app.2017-07-14.1.log.gz, got: $(ls $T/rot/logs | tr '\n' ' '))"
grep -q '"k":"rename"' "$T/rot/t" || fail "syscall shim did not observe the rename"
echo "selfcheck ok"
